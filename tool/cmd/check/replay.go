package main

import (
	"bytes"
	"encoding/json"
	"fmt"
	"os"
	"os/exec"
	"path/filepath"
	"strings"

	"govc/vc"
)

// tryReplay turns a solver model into a concrete call of the real function where the model can
// be made concrete; it reports whether the real code misbehaves on it.
func tryReplay(p *vc.Prog, o *vc.Obligation, dir, repo string) (bool, string) {
	src, pkgDir, why := vc.ReplayProgram(p, o)
	if src == "" {
		return false, "no concrete input derived from the model (" + why + ")\n"
	}
	gofile := filepath.Join(dir, sanitize(o.Name)+".go")
	os.WriteFile(gofile, []byte(src), 0o644)
	os.WriteFile(gofile+".pkgdir", []byte(pkgDir), 0o644)
	ok, out := runReplayTest(gofile, repo)
	if ok {
		return false, "replayed model did not misbehave on the real code:\n" + out
	}
	return true, out
}

// runReplayTest injects the replay test into its package with -overlay and runs it.
func runReplayTest(gofile, repo string) (bool, string) {
	pkgDirB, err := os.ReadFile(gofile + ".pkgdir")
	if err != nil {
		return true, "no package recorded for replay"
	}
	pkgDir := strings.TrimSpace(string(pkgDirB))
	ov := map[string]map[string]string{"Replace": {filepath.Join(pkgDir, "zz_replay_test.go"): gofile}}
	ovData, _ := json.Marshal(ov)
	ovFile := gofile + ".overlay.json"
	os.WriteFile(ovFile, ovData, 0o644)
	cmd := exec.Command("bash", "-c", fmt.Sprintf("ulimit -v 4194304; cd %q && go test -overlay %q -vet=off -count=1 -timeout 60s -run '^TestReplay$' .", pkgDir, ovFile))
	cmd.Env = append(os.Environ(), "GOFLAGS=-mod=mod", "GOPROXY=off", "GOSUMDB=off", "GOTOOLCHAIN=local")
	var out bytes.Buffer
	cmd.Stdout = &out
	cmd.Stderr = &out
	err = cmd.Run()
	return err == nil, out.String()
}
