// check decides one property: it regenerates every verification condition from /repo's
// current working tree, discharges them, guards against vacuity, matches failures against the
// committed known-findings file and writes the evidence file.
package main

import (
	"encoding/json"
	"flag"
	"fmt"
	"os"
	"os/exec"
	"path/filepath"
	"sort"
	"strconv"
	"strings"
	"sync"
	"time"

	"govc/vc"
)

type PropCfg struct {
	Property       string   `json:"property"`
	Functions      []string `json:"functions"`
	Lemmas         []string `json:"lemmas"`
	MinObligations int      `json:"min_obligations"`
	NotDecided     []string `json:"not_decided"`
	Assumptions    []string `json:"assumptions"`
	ThoroughOnly   []string `json:"thorough_only"` // obligation name prefixes only claimed in the thorough tier
	Bounded        []struct {
		Name string `json:"name"`
		Cmd  string `json:"cmd"`
		Note string `json:"note"`
	} `json:"bounded"`
	Sweeps    []string `json:"sweeps"`     // extra checks: "globals"
	OnlyKinds []string `json:"only_kinds"` // restrict the claimed obligations to these kinds (e.g. frame)
}

type finding struct {
	kind       string // finding | fixed
	property   string
	obligation string
	text       string
}

func loadFindings(path string) []finding {
	data, err := os.ReadFile(path)
	if err != nil {
		return nil
	}
	var out []finding
	for _, ln := range strings.Split(string(data), "\n") {
		ln = strings.TrimSpace(ln)
		if ln == "" || strings.HasPrefix(ln, "#") {
			continue
		}
		f := finding{}
		switch {
		case strings.HasPrefix(ln, "finding:"):
			f.kind = "finding"
			ln = strings.TrimSpace(ln[len("finding:"):])
		case strings.HasPrefix(ln, "fixed:"):
			f.kind = "fixed"
			ln = strings.TrimSpace(ln[len("fixed:"):])
		default:
			continue
		}
		for _, tok := range strings.Fields(ln) {
			if strings.HasPrefix(tok, "property=") {
				f.property = tok[len("property="):]
			}
			if strings.HasPrefix(tok, "obligation=") {
				f.obligation = tok[len("obligation="):]
			}
		}
		if i := strings.Index(ln, "::"); i >= 0 {
			f.text = strings.TrimSpace(ln[i+2:])
		}
		out = append(out, f)
	}
	return out
}

func main() {
	tier := flag.String("tier", os.Getenv("VERIF_TIER"), "quick|thorough")
	replay := flag.String("replay", "", "replay file to re-run")
	repo := flag.String("repo", "/repo", "repository")
	root := flag.String("root", "/verif", "verif root")
	only := flag.String("only", "", "restrict to functions containing this text (debug)")
	verbose := flag.Bool("v", false, "verbose")
	flag.Parse()
	if flag.NArg() < 1 {
		fmt.Fprintln(os.Stderr, "usage: check <property> [--tier quick|thorough] [--replay path]")
		os.Exit(2)
	}
	// flags may follow the property id
	prop := flag.Arg(0)
	rest := flag.Args()[1:]
	for i := 0; i < len(rest); i++ {
		switch rest[i] {
		case "--tier", "-tier":
			if i+1 < len(rest) {
				*tier = rest[i+1]
				i++
			}
		case "--replay", "-replay":
			if i+1 < len(rest) {
				*replay = rest[i+1]
				i++
			}
		case "-v":
			*verbose = true
		case "--only":
			if i+1 < len(rest) {
				*only = rest[i+1]
				i++
			}
		}
	}
	if *tier == "" {
		*tier = "quick"
	}
	seed := 1
	if s := os.Getenv("VERIF_SEED"); s != "" {
		if n, err := strconv.Atoi(s); err == nil {
			seed = n
		}
	}
	if *replay != "" {
		os.Exit(runReplay(*replay, *repo))
	}
	start := time.Now()
	cfgPath := filepath.Join(*root, "props", prop+".json")
	data, err := os.ReadFile(cfgPath)
	if err != nil {
		fmt.Fprintln(os.Stderr, "cannot read property config:", err)
		os.Exit(2)
	}
	var cfg PropCfg
	if err := json.Unmarshal(data, &cfg); err != nil {
		fmt.Fprintln(os.Stderr, "bad property config:", err)
		os.Exit(2)
	}
	evPath := filepath.Join(*root, "evidence", prop+".json")
	os.MkdirAll(filepath.Dir(evPath), 0o755)
	os.Remove(evPath)
	p, err := vc.Load(*repo, filepath.Join(*root, "specs"))
	violations := 0
	replayDir := filepath.Join(*root, "replay", prop)
	os.MkdirAll(replayDir, 0o755)
	report := func(name, body string, noInput bool) {
		violations++
		path := filepath.Join(replayDir, sanitize(name)+".txt")
		os.WriteFile(path, []byte(body), 0o644)
		suffix := ""
		if noInput {
			suffix = " no-failing-input-found"
		}
		fmt.Printf("VIOLATION property=%s replay=%s%s\n", prop, path, suffix)
	}
	if err != nil {
		// the tree does not load (e.g. does not type-check): nothing can be decided
		fmt.Fprintln(os.Stderr, "load error:", err)
		report("load", "obligation: load\nThe repository could not be loaded / type-checked:\n"+err.Error()+"\n", true)
		writeEvidence(evPath, prop, *tier, seed, nil, nil, &cfg, time.Since(start).Seconds(), violations, nil, nil, 0, 0)
		os.Exit(1)
	}
	timeout := 30
	if *tier == "thorough" {
		timeout = 120
	}
	// generate
	var vcs []*vc.VC
	lemmaSet := map[string]bool{}
	for _, l := range cfg.Lemmas {
		lemmaSet[l] = true
	}
	var missing []string
	for _, f := range cfg.Functions {
		if *only != "" && !strings.Contains(f, *only) {
			continue
		}
		fi := findFunc(p, f)
		if fi == nil {
			missing = append(missing, f)
			continue
		}
		v := vc.VerifyFunc(p, fi, "")
		vcs = append(vcs, v)
		for l := range v.UsedLemmas {
			if !strings.HasSuffix(l, "!auto") {
				lemmaSet[l] = true
			}
		}
	}
	// lemmas (transitively)
	done := map[string]bool{}
	for {
		var todo []string
		for l := range lemmaSet {
			if !done[l] {
				todo = append(todo, l)
			}
		}
		if len(todo) == 0 {
			break
		}
		sort.Strings(todo)
		for _, l := range todo {
			done[l] = true
			lm, ok := p.Specs.Lemmas[l]
			if !ok {
				missing = append(missing, "lemma "+l)
				continue
			}
			if *only != "" && !strings.Contains(l, *only) {
				continue
			}
			v := vc.VerifyLemma(p, lm)
			vcs = append(vcs, v)
			for u := range v.UsedLemmas {
				if !strings.HasSuffix(u, "!auto") {
					lemmaSet[u] = true
				}
			}
		}
	}
	for _, m := range missing {
		report("missing."+m, "obligation: contract-target-missing "+m+"\nA function or lemma under contract for this property no longer exists in the tree; its obligations cannot be generated.\n", true)
	}
	// solve
	var all []*vc.Obligation
	thoroughOnly := func(name string) bool {
		for _, pre := range cfg.ThoroughOnly {
			if strings.HasPrefix(name, pre) {
				return true
			}
		}
		return false
	}
	skipped := 0
	kindOK := func(o *vc.Obligation) bool {
		if len(cfg.OnlyKinds) == 0 || o.Canary {
			return true
		}
		for _, k := range cfg.OnlyKinds {
			if o.Kind == k {
				return true
			}
		}
		return false
	}
	for _, v := range vcs {
		for _, o := range v.Obls {
			if !kindOK(o) {
				continue
			}
			if *tier == "quick" && thoroughOnly(o.Name) {
				skipped++
				continue
			}
			all = append(all, o)
		}
	}
	outDir := filepath.Join(*root, "out", "smt", prop)
	os.RemoveAll(outDir)
	vc.SolveAll(all, vc.SolveOpts{TimeoutS: timeout, Seed: seed, OutDir: outDir, Workers: 10, All: false})
	// retry failures once with another seed (solver instability is not a violation)
	var retry []*vc.Obligation
	for _, o := range all {
		if !o.OK() && !o.Canary && o.Status != "sat" {
			retry = append(retry, o)
		}
	}
	if len(retry) > 0 && len(retry) <= 40 {
		vc.SolveAll(retry, vc.SolveOpts{TimeoutS: timeout * 2, Seed: seed + 7, OutDir: outDir, Workers: 8, All: true})
	}
	findings := loadFindings(filepath.Join(*root, "known_findings.txt"))
	// unsupported constructs mean the function is outside the verified subset: report as undecided obligations
	var trusted = map[string]bool{}
	var inlined = map[string]bool{}
	funcStats := map[string][2]int{}
	byBackend := map[string]int{}
	var samples []map[string]interface{}
	totalTime, maxTime := 0.0, 0.0
	nObl, nOK, nCanary, nCanaryOK, nKnown := 0, 0, 0, 0, 0
	var knownPrinted []string
	var slow []string
	for _, v := range vcs {
		for k := range v.Trusted {
			trusted[k] = true
		}
		for k := range v.Inlined {
			inlined[vc.ShortKey(k)] = true
		}
		for _, e := range v.Errs {
			report(v.Name+".unsupported", "obligation: "+v.Name+"/subset\nThe function uses a construct outside the verifier's subset, so it cannot be verified as written:\n"+e+"\n", true)
		}
	}
	for _, o := range all {
		if o.Canary {
			nCanary++
			if o.OK() {
				nCanaryOK++
			} else {
				report(o.Name, "obligation: "+o.Name+"\nVacuity guard failed: the assumptions at this point are contradictory (canary `assert false` was proved).\n"+o.Output, true)
			}
			continue
		}
		st := funcStats[o.Func]
		totalTime += o.TimeS
		if o.TimeS > maxTime {
			maxTime = o.TimeS
		}
		if o.TimeS > 5 {
			slow = append(slow, fmt.Sprintf("%s %.1fs", o.Name, o.TimeS))
		}
		if o.OK() {
			nObl++
			nOK++
			st[0]++
			st[1]++
			funcStats[o.Func] = st
			byBackend[o.Solver]++
			if len(samples) < 6 && (o.Kind == "post" || o.Kind == "inv-keep" || o.Kind == "lemma" || o.Kind == "safety") {
				samples = append(samples, map[string]interface{}{"obligation": o.Name, "where": o.Where, "statement": o.Desc, "solver": o.Solver, "time_s": round3(o.TimeS)})
			}
			if *verbose {
				fmt.Printf("  ok   %-64s %.2fs %s\n", o.Name, o.TimeS, o.Solver)
			}
			continue
		}
		// failed: known finding?
		matched := false
		for _, f := range findings {
			if f.kind == "finding" && f.property == prop && f.obligation == o.Name {
				matched = true
				nKnown++
				line := fmt.Sprintf("KNOWN-FINDING: property=%s %s :: %s", prop, o.Name, f.text)
				knownPrinted = append(knownPrinted, line)
				fmt.Println(line)
				break
			}
		}
		if matched {
			continue
		}
		nObl++
		st[0]++
		funcStats[o.Func] = st
		body := fmt.Sprintf("obligation: %s\nkind: %s\nwhere: %s\nstatement: %s\nsolver verdict: %s (%s, %.1fs)\nSMT query: %s\n\n", o.Name, o.Kind, o.Where, o.Desc, o.Status, o.Solver, o.TimeS, o.SMTFile)
		noInput := true
		if o.Status == "sat" {
			body += "solver model (counterexample to the obligation):\n" + o.Model + "\n"
			if ok, txt := tryReplay(p, o, replayDir, *repo); ok {
				noInput = false
				body += "\nreplay against the real code:\n" + txt
			} else if txt != "" {
				body += "\nreplay: " + txt
			}
		} else {
			body += "solver output:\n" + o.Output + "\n"
		}
		fmt.Printf("  FAIL %-64s %s %.1fs [%s] %s\n", o.Name, o.Status, o.TimeS, o.Where, firstLine(o.Desc))
		report(o.Name, body, noInput)
	}
	// vacuity: obligation floor
	if *only == "" && nObl < cfg.MinObligations && *tier != "quick-partial" {
		floor := cfg.MinObligations
		if *tier == "quick" {
			floor -= skippedFloor(skipped)
		}
		if nObl < floor {
			report("vacuity.floor", fmt.Sprintf("obligation: vacuity/obligation-floor\nOnly %d obligations were generated; the recorded floor is %d. Contracts were removed or no longer attach to the code.\n", nObl, floor), true)
		}
	}
	// extra sweeps
	sweepNotes := []string{}
	for _, sw := range cfg.Sweeps {
		switch sw {
		case "globals":
			bad := vc.GlobalWriteSweep(p)
			nObl += 1
			if len(bad) == 0 {
				nOK++
			} else {
				report("sweep.globals", "obligation: sweep/no-package-level-writes\nLibrary code assigns or takes the address of package-level variables:\n"+strings.Join(bad, "\n")+"\n", true)
			}
			sweepNotes = append(sweepNotes, fmt.Sprintf("package-level write sweep: %d sites", len(bad)))
		}
	}
	// bounded stand-ins
	var bounded []map[string]interface{}
	for _, b := range cfg.Bounded {
		cmdline := b.Cmd
		if *tier == "thorough" {
			cmdline += " -thorough"
		}
		bs := time.Now()
		c := exec.Command("bash", "-c", cmdline)
		c.Dir = *root
		c.Env = append(os.Environ(), "VERIF_SEED="+strconv.Itoa(seed), "VERIF_TIER="+*tier, "GOFLAGS=-mod=mod", "GOPROXY=off", "GOSUMDB=off", "GOTOOLCHAIN=local")
		out, err := c.CombinedOutput()
		res := map[string]interface{}{"name": b.Name, "note": b.Note, "labelled": "bounded (not counted in obligations)", "wall_s": round3(time.Since(bs).Seconds())}
		var js map[string]interface{}
		lines := strings.Split(strings.TrimSpace(string(out)), "\n")
		if len(lines) > 0 && json.Unmarshal([]byte(lines[len(lines)-1]), &js) == nil {
			for k, v := range js {
				res[k] = v
			}
		}
		if err != nil {
			res["status"] = "failed"
			report("bounded."+b.Name, "obligation: bounded/"+b.Name+"\nBounded stand-in failed:\n"+string(out)+"\n", !strings.Contains(string(out), "FAILING-INPUT"))
		} else {
			res["status"] = "passed"
		}
		bounded = append(bounded, res)
	}
	var fstats []map[string]interface{}
	names := make([]string, 0, len(funcStats))
	for k := range funcStats {
		names = append(names, k)
	}
	sort.Strings(names)
	for _, k := range names {
		fstats = append(fstats, map[string]interface{}{"function": k, "obligations": funcStats[k][0], "discharged": funcStats[k][1]})
	}
	extra := map[string]interface{}{
		"functions_under_contract": fstats,
		"functions_inlined":        sortedSet(inlined),
		"by_backend":               byBackend,
		"solver_time_s":            map[string]interface{}{"sum": round3(totalTime), "max": round3(maxTime), "slow": slow},
		"vacuity":                  map[string]interface{}{"canaries": nCanary, "canaries_not_refuted": nCanaryOK, "obligation_floor": cfg.MinObligations},
		"thorough_only_skipped":    skipped,
		"known_findings":           knownPrinted,
		"bounded_standins":         bounded,
		"not_decided":              cfg.NotDecided,
		"sweeps":                   sweepNotes,
	}
	writeEvidence(evPath, prop, *tier, seed, samples, sortedSet(trusted), &cfg, time.Since(start).Seconds(), violations, extra, nil, nObl, nOK)
	fmt.Printf("%s [%s]: %d/%d obligations discharged, %d canaries, %d known findings, %d violations, %.1fs\n", prop, *tier, nOK, nObl, nCanary, nKnown, violations, time.Since(start).Seconds())
	if violations > 0 {
		os.Exit(1)
	}
}

func skippedFloor(n int) int { return n }

func round3(f float64) float64 { return float64(int(f*1000+0.5)) / 1000 }

func firstLine(s string) string {
	if i := strings.Index(s, "\n"); i >= 0 {
		s = s[:i]
	}
	if len(s) > 120 {
		s = s[:120]
	}
	return s
}

func sanitize(s string) string {
	var b strings.Builder
	for _, r := range s {
		switch {
		case r >= 'a' && r <= 'z', r >= 'A' && r <= 'Z', r >= '0' && r <= '9', r == '.', r == '_', r == '-':
			b.WriteRune(r)
		default:
			b.WriteByte('_')
		}
	}
	return b.String()
}

func sortedSet(m map[string]bool) []string {
	out := make([]string, 0, len(m))
	for k := range m {
		out = append(out, k)
	}
	sort.Strings(out)
	return out
}

func findFunc(p *vc.Prog, name string) *vc.FuncInfo {
	if fi, ok := p.Funcs[name]; ok {
		return fi
	}
	for k, fi := range p.Funcs {
		if vc.ShortKey(k) == name {
			return fi
		}
	}
	return nil
}

func writeEvidence(path, prop, tier string, seed int, samples []map[string]interface{}, trusted []string, cfg *PropCfg, wall float64, violations int, extra map[string]interface{}, _ interface{}, nObl, nOK int) {
	cov := map[string]interface{}{
		"obligations":  nObl,
		"discharged":   nOK,
		"checker_cmd":  "bin/check " + prop + " --tier " + tier + "  (govc: VCs from go/ast+go/types over /repo, discharged by z3 4.8.12 / z3 5.1.0 / cvc5 1.0.3)",
		"trusted_base": trusted,
	}
	if trusted == nil {
		cov["trusted_base"] = []string{}
	}
	if samples != nil {
		cov["samples"] = samples
	}
	for k, v := range extra {
		cov[k] = v
	}
	ev := map[string]interface{}{
		"property_id": prop,
		"tier":        tier,
		"seed":        seed,
		"level":       "proof",
		"coverage":    cov,
		"assumptions": cfg.Assumptions,
		"wall_s":      round3(wall),
		"violations":  violations,
	}
	if cfg.Assumptions == nil {
		ev["assumptions"] = []string{}
	}
	data, _ := json.MarshalIndent(ev, "", " ")
	os.WriteFile(path, data, 0o644)
}

var replayMu sync.Mutex

func runReplay(path, repo string) int {
	data, err := os.ReadFile(path)
	if err != nil {
		fmt.Fprintln(os.Stderr, err)
		return 2
	}
	fmt.Print(string(data))
	// a bounded stand-in records its failing input in the file: run it again on the real code
	if strings.Contains(string(data), "FAILING-INPUT: wkt.Unmarshal(") {
		c := exec.Command("bash", "-c", "bounded/C06/run.sh -input "+strconv.Quote(path))
		c.Dir = filepath.Dir(filepath.Dir(filepath.Dir(path)))
		if _, err := os.Stat(filepath.Join(c.Dir, "bounded")); err != nil {
			c.Dir = "/verif"
		}
		out, err := c.CombinedOutput()
		fmt.Println("replay against the real code:")
		fmt.Print(string(out))
		if err != nil {
			return 1
		}
		return 0
	}
	// a replay file may carry a Go test to run against the real code
	gofile := strings.TrimSuffix(path, ".txt") + ".go"
	if _, err := os.Stat(gofile); err == nil {
		ok, out := runReplayTest(gofile, repo)
		fmt.Println(out)
		if !ok {
			return 1
		}
	}
	return 0
}
