package main

import (
	"flag"
	"fmt"
	"os"
	"sort"
	"strings"
	"time"

	"govc/vc"
)

func main() {
	repo := flag.String("repo", "/repo", "repository root")
	specs := flag.String("specs", "/verif/specs", "spec directory")
	funcs := flag.String("func", "", "comma separated function keys (short form allowed)")
	lemmas := flag.String("lemma", "", "comma separated lemma names (or 'all')")
	timeout := flag.Int("timeout", 10, "per-obligation timeout (s)")
	out := flag.String("out", "/verif/out/smt", "SMT output dir")
	keep := flag.Bool("keep", false, "keep SMT files")
	verbose := flag.Bool("v", false, "verbose")
	mode := flag.String("floats", "", "override float mode")
	stmts := flag.Bool("stmts", false, "print the statement ordinals of the selected functions and exit")
	flag.Parse()
	t0 := time.Now()
	p, err := vc.Load(*repo, *specs)
	if err != nil {
		fmt.Fprintln(os.Stderr, "load:", err)
		os.Exit(2)
	}
	fmt.Printf("loaded in %.1fs: %d funcs, %d contracts, %d ghosts, %d lemmas\n", time.Since(t0).Seconds(), len(p.Funcs), len(p.Specs.Contracts), len(p.Specs.Ghosts), len(p.Specs.Lemmas))
	var vcs []*vc.VC
	if *funcs != "" {
		for _, f := range strings.Split(*funcs, ",") {
			fi := findFunc(p, f)
			if fi == nil {
				fmt.Fprintln(os.Stderr, "no such function:", f)
				os.Exit(2)
			}
			if *stmts {
				vc.PrintStmtOrdinals(p, fi)
				continue
			}
			vcs = append(vcs, vc.VerifyFunc(p, fi, *mode))
		}
	}
	if *lemmas != "" {
		var names []string
		if *lemmas == "all" {
			for n := range p.Specs.Lemmas {
				names = append(names, n)
			}
			sort.Strings(names)
		} else {
			names = strings.Split(*lemmas, ",")
		}
		for _, n := range names {
			lm, ok := p.Specs.Lemmas[n]
			if !ok {
				fmt.Fprintln(os.Stderr, "no such lemma:", n)
				os.Exit(2)
			}
			vcs = append(vcs, vc.VerifyLemma(p, lm))
		}
	}
	bad := 0
	for _, v := range vcs {
		for _, e := range v.Errs {
			fmt.Printf("  UNSUPPORTED %s: %s\n", v.Name, e)
		}
		vc.SolveAll(v.Obls, vc.SolveOpts{TimeoutS: *timeout, Seed: 1, OutDir: *out, Workers: 8, Keep: *keep})
		ok := 0
		for _, o := range v.Obls {
			if o.OK() {
				ok++
				if *verbose {
					fmt.Printf("  ok   %-60s %s %.2fs %s\n", o.Name, o.Status, o.TimeS, o.Solver)
				}
			} else {
				bad++
				fmt.Printf("  FAIL %-60s %s %.2fs %s [%s] %s\n", o.Name, o.Status, o.TimeS, o.Solver, o.Where, o.Desc)
			}
		}
		fmt.Printf("%s: %d/%d obligations ok, %d unsupported\n", v.Name, ok, len(v.Obls), len(v.Errs))
	}
	if bad > 0 {
		os.Exit(1)
	}
}

func findFunc(p *vc.Prog, name string) *vc.FuncInfo {
	if fi, ok := p.Funcs[name]; ok {
		return fi
	}
	for k, fi := range p.Funcs {
		if vc.ShortKey(k) == name {
			return fi
		}
	}
	return nil
}
