package vc

import (
	"sort"
	"strings"
)

// sexp is a minimal s-expression tree used to pick quantifier triggers.
type sexp struct {
	atom string
	list []*sexp
	text string
}

func parseSexp(s string) *sexp {
	pos := 0
	var parse func() *sexp
	parse = func() *sexp {
		for pos < len(s) && s[pos] == ' ' {
			pos++
		}
		if pos >= len(s) {
			return nil
		}
		start := pos
		if s[pos] == '(' {
			pos++
			n := &sexp{}
			for {
				for pos < len(s) && s[pos] == ' ' {
					pos++
				}
				if pos >= len(s) {
					break
				}
				if s[pos] == ')' {
					pos++
					break
				}
				c := parse()
				if c == nil {
					break
				}
				n.list = append(n.list, c)
			}
			n.text = s[start:pos]
			return n
		}
		for pos < len(s) && s[pos] != ' ' && s[pos] != '(' && s[pos] != ')' {
			pos++
		}
		return &sexp{atom: s[start:pos], text: s[start:pos]}
	}
	return parse()
}

var interpretedOps = map[string]bool{"+": true, "-": true, "*": true, "/": true, "div": true, "mod": true, "ite": true,
	"<": true, "<=": true, ">": true, ">=": true, "=": true, "and": true, "or": true, "not": true, "=>": true, "to_real": true, "to_int": true,
	"forall": true, "exists": true, "!": true, "let": true, "distinct": true}

// autoPatterns chooses triggers for a quantifier: applications of uninterpreted functions (rd!, g!, select)
// in which bound variables occur only as direct arguments, never under arithmetic.
func autoPatterns(vars []Term, body string) [][]Term {
	if len(vars) == 0 {
		return nil
	}
	isVar := map[string]bool{}
	for _, v := range vars {
		isVar[v.S] = true
	}
	root := parseSexp(body)
	if root == nil {
		return nil
	}
	type cand struct {
		text string
		vars map[string]bool
	}
	var cands []cand
	seen := map[string]bool{}
	// clean(n): returns (ok, vars) — ok if all bound-variable occurrences inside n are direct args of uninterpreted apps
	var clean func(n *sexp) (bool, map[string]bool)
	clean = func(n *sexp) (bool, map[string]bool) {
		vs := map[string]bool{}
		if n.list == nil {
			if isVar[n.atom] {
				vs[n.atom] = true
			}
			return true, vs
		}
		if len(n.list) == 0 {
			return true, vs
		}
		head := n.list[0].atom
		interp := interpretedOps[head] || head == ""
		ok := true
		for _, c := range n.list[1:] {
			cok, cvs := clean(c)
			if !cok {
				ok = false
			}
			for v := range cvs {
				vs[v] = true
			}
			if interp && len(cvs) > 0 {
				ok = false
			}
		}
		return ok, vs
	}
	var walk func(n *sexp, nested bool)
	walk = func(n *sexp, nested bool) {
		if n == nil || n.list == nil || len(n.list) == 0 {
			return
		}
		head := n.list[0].atom
		if head == "forall" || head == "exists" {
			// do not pick triggers from nested quantifiers that rebind variables
			if len(n.list) >= 3 {
				walk(n.list[2], true)
			}
			return
		}
		isUF := strings.HasPrefix(head, "rd!") || strings.HasPrefix(head, "g!") || head == "select"
		if isUF {
			ok, vs := clean(n)
			if ok && len(vs) > 0 && !seen[n.text] && !strings.Contains(n.text, "(ite ") && !hasForeignBound(n, isVar) {
				// select terms only when the array is not itself a bound var
				seen[n.text] = true
				cands = append(cands, cand{n.text, vs})
			}
		}
		for _, c := range n.list[1:] {
			walk(c, nested)
		}
	}
	walk(root, false)
	if len(cands) == 0 {
		return nil
	}
	// prefer candidates covering more variables; drop candidates that are subterms of a bigger candidate with same vars
	sort.SliceStable(cands, func(i, j int) bool {
		if len(cands[i].vars) != len(cands[j].vars) {
			return len(cands[i].vars) > len(cands[j].vars)
		}
		return len(cands[i].text) < len(cands[j].text)
	})
	var pats [][]Term
	// full-cover single-term patterns
	for _, c := range cands {
		if len(c.vars) == len(vars) {
			pats = append(pats, []Term{{c.text, SBool}})
			if len(pats) >= 3 {
				return pats
			}
		}
	}
	if len(pats) > 0 {
		return pats
	}
	// greedy multi-pattern
	covered := map[string]bool{}
	var multi []Term
	for len(covered) < len(vars) {
		best := -1
		bestGain := 0
		for i, c := range cands {
			gain := 0
			for v := range c.vars {
				if !covered[v] {
					gain++
				}
			}
			if gain > bestGain {
				best, bestGain = i, gain
			}
		}
		if best < 0 {
			return nil
		}
		multi = append(multi, Term{cands[best].text, SBool})
		for v := range cands[best].vars {
			covered[v] = true
		}
	}
	return [][]Term{multi}
}

// hasForeignBound reports whether n mentions a bound variable (name containing '?') that is not
// one of the quantifier's own variables (i.e. it belongs to a nested quantifier).
func hasForeignBound(n *sexp, own map[string]bool) bool {
	if n.list == nil {
		return strings.Contains(n.atom, "?") && !own[n.atom]
	}
	for _, c := range n.list {
		if hasForeignBound(c, own) {
			return true
		}
	}
	return false
}
