package vc

import (
	"fmt"
	"go/ast"
	"go/token"
	"go/types"
)

// merge joins states with mutually exclusive path conditions.
func (vc *VC) merge(states ...*State) *State {
	var live []*State
	for _, s := range states {
		if s != nil && s.pc.S != "false" {
			live = append(live, s)
		}
	}
	if len(live) == 0 {
		return nil
	}
	if len(live) == 1 {
		return live[0]
	}
	pcs := make([]Term, len(live))
	for i, s := range live {
		pcs[i] = s.pc
	}
	out := &State{vars: map[*types.Var]Val{}, heaps: map[string]Term{}}
	pc := Or(pcs...)
	if len(pc.S) > 40 {
		n := vc.fresh("pc", SBool)
		vc.assumeGlobal(Eq(n, pc))
		pc = n
	}
	out.pc = pc
	// vars present in all states
	for k := range live[0].vars {
		all := true
		for _, s := range live[1:] {
			if _, ok := s.vars[k]; !ok {
				all = false
				break
			}
		}
		if !all {
			continue
		}
		vals := make([]Val, len(live))
		for i, s := range live {
			vals[i] = s.vars[k]
		}
		out.vars[k] = vc.mergeVals(k.Name(), vals, pcs)
	}
	keys := map[string]bool{}
	for _, s := range live {
		for k := range s.heaps {
			keys[k] = true
		}
	}
	for k := range keys {
		ts := make([]Val, len(live))
		for i, s := range live {
			if h, ok := s.heaps[k]; ok {
				ts[i] = h
			} else {
				ts[i] = vc.heaps0[k]
			}
		}
		out.heaps[k] = vc.mergeVals("H!"+k, ts, pcs).(Term)
	}
	as := make([]Val, len(live))
	for i, s := range live {
		as[i] = s.alloc
	}
	out.alloc = vc.mergeVals("alloc", as, pcs).(Term)
	return out
}

func (vc *VC) mergeVals(name string, vals []Val, pcs []Term) Val {
	switch v0 := vals[0].(type) {
	case Term:
		same := true
		for _, v := range vals[1:] {
			t, ok := v.(Term)
			if !ok || t.S != v0.S {
				same = false
				break
			}
		}
		if same {
			return v0
		}
		n := vc.fresh(name, v0.Sort)
		for i, v := range vals {
			t, ok := v.(Term)
			if !ok {
				continue
			}
			vc.assumeGlobal(Implies(pcs[i], Eq(n, t)))
			if vc.deg != nil && v0.Sort == SReal {
				if d := vc.degOf(t); d > vc.deg[n.S] {
					vc.deg[n.S] = d
				}
			}
		}
		return n
	case *StructV:
		out := &StructV{T: v0.T, F: make([]Val, len(v0.F))}
		for i := range v0.F {
			fs := make([]Val, len(vals))
			for j, v := range vals {
				fs[j] = v.(*StructV).F[i]
			}
			out.F[i] = vc.mergeVals(name, fs, pcs)
		}
		return out
	case *ElemPtr:
		bs, is := make([]Val, len(vals)), make([]Val, len(vals))
		for j, v := range vals {
			e, ok := v.(*ElemPtr)
			if !ok || e.Key != v0.Key {
				vc.errorf(token.NoPos, "unsupported: join of different element pointers in %s", name)
				return v0
			}
			bs[j], is[j] = e.Base, e.Idx
		}
		return &ElemPtr{Elem: v0.Elem, Key: v0.Key, Base: vc.mergeVals(name, bs, pcs).(Term), Idx: vc.mergeVals(name, is, pcs).(Term)}
	case TupleV:
		out := make(TupleV, len(v0))
		for i := range v0 {
			fs := make([]Val, len(vals))
			for j, v := range vals {
				fs[j] = v.(TupleV)[i]
			}
			out[i] = vc.mergeVals(name, fs, pcs)
		}
		return out
	}
	return vals[0]
}

// ---------------------------------------------------------------------------

func (vc *VC) execBlock(fr *frame, st *State, stmts []ast.Stmt) *State {
	for i, s := range stmts {
		if st == nil {
			return nil
		}
		vc.pendingOuts = nil
		st = vc.execStmt(fr, st, s)
		if outs := vc.pendingOuts; vc.splitJoins && !fr.inlined && len(outs) > 1 {
			// `nomerge`: the rest of the block is executed once per branch of the if / switch just
			// executed; the states are joined at the end of the block (returns are checked per path)
			vc.pendingOuts = nil
			var ends []*State
			for _, o := range outs {
				if fr.stmtOrd != nil && fr.contract != nil {
					if n, ok := fr.stmtOrd[s]; ok {
						for _, label := range []string{fmt.Sprintf("stmt%d", n), fr.stmtKey[s]} {
							if label != "" && len(fr.contract.At[label]) > 0 {
								saved := fr.specPos
								fr.specPos = s.End()
								vc.hintName = fmt.Sprintf("stmt%d", n)
								vc.applyHints(fr, o, label)
								vc.hintName = ""
								fr.specPos = saved
							}
						}
					}
				}
				e := vc.execBlock(fr, o, stmts[i+1:])
				if sub := vc.blockOuts; len(sub) > 1 {
					ends = append(ends, sub...)
				} else if e != nil {
					ends = append(ends, e)
				}
				vc.blockOuts = nil
			}
			vc.pendingOuts = nil
			m := vc.merge(ends...)
			vc.blockOuts = ends
			return m
		}
		vc.pendingOuts = nil
		vc.blockOuts = nil
		// `at stmtN:` hints apply right after the N-th statement of the function (source order), with the
		// Go locals in scope there
		if st != nil && fr.stmtOrd != nil && fr.contract != nil && !fr.inlined {
			if n, ok := fr.stmtOrd[s]; ok {
				for _, label := range []string{fmt.Sprintf("stmt%d", n), fr.stmtKey[s]} {
					if label != "" && len(fr.contract.At[label]) > 0 {
						saved := fr.specPos
						fr.specPos = s.End()
						vc.hintName = fmt.Sprintf("stmt%d", n)
						vc.applyHints(fr, st, label)
						vc.hintName = ""
						fr.specPos = saved
					}
				}
			}
		}
	}
	return st
}

func (vc *VC) execStmt(fr *frame, st *State, s ast.Stmt) *State {
	if st == nil || st.pc.S == "false" {
		return nil
	}
	switch x := s.(type) {
	case *ast.BlockStmt:
		return vc.execBlock(fr, st, x.List)
	case *ast.ExprStmt:
		vc.evalExpr(fr, st, x.X)
		if st.pc.S == "false" {
			return nil
		}
		return st
	case *ast.AssignStmt:
		vc.execAssign(fr, st, x)
		if st.pc.S == "false" {
			return nil
		}
		return st
	case *ast.IncDecStmt:
		t := fr.typeOf(x.X)
		v := vc.term(vc.evalExpr(fr, st, x.X))
		var nv Term
		if x.Tok == token.INC {
			nv = vc.wrapInt(Add(v, IntLit(1)), t)
		} else {
			nv = vc.wrapInt(Sub(v, IntLit(1)), t)
		}
		vc.assignTo(fr, st, x.X, nv)
		return st
	case *ast.DeclStmt:
		gd, ok := x.Decl.(*ast.GenDecl)
		if !ok || gd.Tok != token.VAR {
			return st
		}
		for _, sp := range gd.Specs {
			vs := sp.(*ast.ValueSpec)
			if len(vs.Values) == 1 && len(vs.Names) > 1 {
				tv, _ := vc.evalExpr(fr, st, vs.Values[0]).(TupleV)
				for i, nm := range vs.Names {
					if o, ok := fr.ctx.info.Defs[nm].(*types.Var); ok && i < len(tv) {
						vc.bindVar(st, o, tv[i])
					}
				}
				continue
			}
			for i, nm := range vs.Names {
				o, ok := fr.ctx.info.Defs[nm].(*types.Var)
				if !ok {
					continue
				}
				if i < len(vs.Values) {
					v := vc.evalExprT(fr, st, vs.Values[i], o.Type())
					v = vc.convertAssign(fr, st, v, fr.typeOf(vs.Values[i]), o.Type())
					vc.bindVar(st, o, v)
				} else {
					vc.bindVar(st, o, vc.zeroVal(o.Type()))
				}
			}
		}
		return st
	case *ast.ReturnStmt:
		vc.execReturn(fr, st, x)
		return nil
	case *ast.IfStmt:
		if x.Init != nil {
			st = vc.execStmt(fr, st, x.Init)
			if st == nil {
				return nil
			}
		}
		c := vc.term(vc.evalExpr(fr, st, x.Cond))
		if st.pc.S == "false" {
			return nil
		}
		s1 := st.clone()
		s1.pc = vc.newPC(st, c)
		s2 := st.clone()
		s2.pc = vc.newPC(st, Not(c))
		vc.blockOuts = nil
		r1 := vc.execBlock(fr, s1, x.Body.List)
		o1 := vc.blockOuts
		vc.blockOuts = nil
		var r2 *State = s2
		var o2 []*State
		if x.Else != nil {
			r2 = vc.execStmt(fr, s2, x.Else)
			o2 = vc.blockOuts
			if len(o2) <= 1 {
				o2 = vc.pendingOuts
			}
			vc.blockOuts = nil
		}
		if vc.splitJoins {
			var outs []*State
			if len(o1) > 1 {
				outs = append(outs, o1...)
			} else if r1 != nil {
				outs = append(outs, r1)
			}
			if len(o2) > 1 {
				outs = append(outs, o2...)
			} else if r2 != nil {
				outs = append(outs, r2)
			}
			m := vc.merge(r1, r2)
			vc.pendingOuts = outs
			return m
		}
		return vc.merge(r1, r2)
	case *ast.ForStmt:
		return vc.execFor(fr, st, x, fr.labelOf[s])
	case *ast.RangeStmt:
		return vc.execRange(fr, st, x, fr.labelOf[s])
	case *ast.SwitchStmt:
		return vc.execSwitch(fr, st, x, fr.labelOf[s])
	case *ast.TypeSwitchStmt:
		return vc.execTypeSwitch(fr, st, x, fr.labelOf[s])
	case *ast.LabeledStmt:
		fr.labelOf[x.Stmt] = x.Label.Name
		return vc.execStmt(fr, st, x.Stmt)
	case *ast.BranchStmt:
		label := ""
		if x.Label != nil {
			label = x.Label.Name
		}
		switch x.Tok {
		case token.BREAK:
			if c := findCollector(fr.breaks, label); c != nil {
				c.states = append(c.states, st)
				return nil
			}
		case token.CONTINUE:
			if c := findCollector(fr.conts, label); c != nil {
				c.states = append(c.states, st)
				return nil
			}
		}
		vc.errorf(x.Pos(), "unsupported branch statement %s", x.Tok)
		return nil
	case *ast.EmptyStmt:
		return st
	case *ast.DeferStmt:
		vc.errorf(x.Pos(), "defer is outside the supported subset")
		return st
	case *ast.GoStmt:
		vc.errorf(x.Pos(), "go statement is outside the supported subset")
		return st
	}
	vc.errorf(s.Pos(), "unsupported statement %T", s)
	return st
}

func findCollector(stack []*jumpCollector, label string) *jumpCollector {
	for i := len(stack) - 1; i >= 0; i-- {
		if label == "" || stack[i].label == label {
			if label == "" && stack[i].label == "\x00switch-nocontinue" {
				continue
			}
			return stack[i]
		}
	}
	return nil
}

// bindVar (re)declares local variable o with value v; struct values are boxed.
func (vc *VC) bindVar(st *State, o *types.Var, v Val) {
	if structOf(o.Type()) != nil {
		sv, ok := v.(*StructV)
		if ok {
			ref := vc.allocRef(st, "loc!"+o.Name())
			saved := vc.checkFrm
			vc.checkFrm = false
			vc.storeStruct(st, o.Type(), ref, sv, token.NoPos)
			vc.checkFrm = saved
			st.vars[o] = ref
			return
		}
	}
	if t, ok := v.(Term); ok {
		v = vc.define(o.Name(), t)
		if vc.addrTaken[o] && t.Sort != SPBox && t.Sort != SBox && vc.sortOf(o.Type()) != "" {
			// its address is taken somewhere in the function: keep it in a heap cell from the start
			ref := vc.allocRef(st, "addr!"+o.Name())
			key := "P:" + typeKey(o.Type())
			h := vc.heap(st, key, ArrSort(vc.sortOf(o.Type())))
			saved := vc.checkFrm
			vc.checkFrm = false
			vc.setHeap(st, key, Store(h, ref, v.(Term)))
			vc.checkFrm = saved
			st.vars[o] = Term{ref.S, SPBox}
			return
		}
	}
	st.vars[o] = v
}

func (vc *VC) execAssign(fr *frame, st *State, x *ast.AssignStmt) {
	if x.Tok != token.ASSIGN && x.Tok != token.DEFINE {
		// compound assignment
		var op token.Token
		switch x.Tok {
		case token.ADD_ASSIGN:
			op = token.ADD
		case token.SUB_ASSIGN:
			op = token.SUB
		case token.MUL_ASSIGN:
			op = token.MUL
		case token.QUO_ASSIGN:
			op = token.QUO
		case token.REM_ASSIGN:
			op = token.REM
		case token.AND_ASSIGN:
			op = token.AND
		case token.OR_ASSIGN:
			op = token.OR
		case token.XOR_ASSIGN:
			op = token.XOR
		case token.SHL_ASSIGN:
			op = token.SHL
		case token.SHR_ASSIGN:
			op = token.SHR
		case token.AND_NOT_ASSIGN:
			op = token.AND_NOT
		}
		lt := fr.typeOf(x.Lhs[0])
		l := vc.evalExpr(fr, st, x.Lhs[0])
		r := vc.evalExpr(fr, st, x.Rhs[0])
		be := &ast.BinaryExpr{X: x.Lhs[0], Y: x.Rhs[0], Op: op, OpPos: x.Pos()}
		v := vc.binop(st, op, l, r, lt, fr.typeOf(x.Rhs[0]), lt, be, fr)
		vc.assignTo(fr, st, x.Lhs[0], v)
		return
	}
	var vals []Val
	var vtypes []types.Type
	if len(x.Rhs) == 1 && len(x.Lhs) > 1 {
		// tuple assignment: call, comma-ok forms
		switch r := x.Rhs[0].(type) {
		case *ast.TypeAssertExpr:
			v, ok := vc.evalTypeAssert(fr, st, r, true)
			vals = []Val{v, ok}
			vtypes = []types.Type{fr.typeOf(r.Type), types.Typ[types.Bool]}
		case *ast.IndexExpr:
			tv := vc.evalExpr(fr, st, r).(TupleV)
			vals = tv
			vtypes = []types.Type{nil, nil}
		default:
			tv, ok := vc.evalExpr(fr, st, x.Rhs[0]).(TupleV)
			if !ok {
				vc.errorf(x.Pos(), "tuple assignment from non-tuple")
				return
			}
			vals = tv
			if tup, ok := fr.typeOf(x.Rhs[0]).(*types.Tuple); ok {
				for i := 0; i < tup.Len(); i++ {
					vtypes = append(vtypes, tup.At(i).Type())
				}
			}
		}
	} else {
		for i, r := range x.Rhs {
			var want types.Type
			if i < len(x.Lhs) {
				want = fr.typeOf(x.Lhs[i])
			}
			var v Val
			if want != nil {
				v = vc.evalExprT(fr, st, r, want)
			} else {
				v = vc.evalExpr(fr, st, r)
			}
			if tup, ok := v.(TupleV); ok && len(tup) > 0 {
				// map index / single value context
				v = tup[0]
			}
			vals = append(vals, v)
			vtypes = append(vtypes, fr.typeOf(r))
		}
	}
	if len(vals) != len(x.Lhs) {
		vc.errorf(x.Pos(), "assignment arity mismatch")
		return
	}
	// evaluate index operands of lhs before storing (parallel assignment)
	type pending struct {
		lhs ast.Expr
		v   Val
	}
	var ps []pending
	for i, l := range x.Lhs {
		v := vals[i]
		lt := fr.typeOf(l)
		if i < len(vtypes) && vtypes[i] != nil && lt != nil {
			v = vc.convertAssign(fr, st, v, vtypes[i], lt)
		}
		ps = append(ps, pending{l, v})
	}
	if len(ps) > 1 {
		// freeze lvalue operands first: evaluate index expressions once
		frozen := make([]func(Val), len(ps))
		for i, p := range ps {
			frozen[i] = vc.lvalue(fr, st, p.lhs, x.Tok == token.DEFINE)
		}
		for i, p := range ps {
			frozen[i](p.v)
		}
		return
	}
	for _, p := range ps {
		vc.lvalue(fr, st, p.lhs, x.Tok == token.DEFINE)(p.v)
	}
}

func (vc *VC) assignTo(fr *frame, st *State, lhs ast.Expr, v Val) {
	vc.lvalue(fr, st, lhs, false)(v)
}

// lvalue evaluates the location denoted by lhs and returns a setter.
func (vc *VC) lvalue(fr *frame, st *State, lhs ast.Expr, define bool) func(Val) {
	switch l := lhs.(type) {
	case *ast.ParenExpr:
		return vc.lvalue(fr, st, l.X, define)
	case *ast.Ident:
		if l.Name == "_" {
			return func(Val) {}
		}
		var o *types.Var
		if define {
			o, _ = fr.ctx.info.Defs[l].(*types.Var)
		}
		if o == nil {
			o, _ = fr.ctx.info.ObjectOf(l).(*types.Var)
		}
		if o == nil {
			vc.errorf(l.Pos(), "assignment to non-variable %s", l.Name)
			return func(Val) {}
		}
		isNew := define && fr.ctx.info.Defs[l] != nil
		return func(v Val) {
			if o.Pkg() != nil && o.Parent() == o.Pkg().Scope() {
				vc.errorf(l.Pos(), "assignment to package-level variable %s", o.Name())
				return
			}
			if structOf(o.Type()) != nil {
				if ref, ok := st.vars[o].(Term); ok && !isNew {
					if sv, ok := v.(*StructV); ok {
						vc.storeStruct(st, o.Type(), ref, sv, l.Pos())
						return
					}
				}
			}
			vc.bindVar(st, o, v)
		}
	case *ast.IndexExpr:
		xt := fr.typeOf(l.X)
		switch u := xt.Underlying().(type) {
		case *types.Slice:
			s := vc.term(vc.evalExpr(fr, st, l.X))
			i := vc.term(vc.evalExpr(fr, st, l.Index))
			vc.oblige(st, "safety", "index", l.Pos(), And(Le(IntLit(0), i), Lt(i, SLen(s))), "index out of range")
			idx := vc.define("ix", Add(SOff(s), i))
			return func(v Val) {
				vc.storeElemPath(st, vc.elemKey(u.Elem()), u.Elem(), SBase(s), idx, v, l.Pos())
			}
		case *types.Array:
			i := vc.term(vc.evalExpr(fr, st, l.Index))
			vc.oblige(st, "safety", "index", l.Pos(), And(Le(IntLit(0), i), Lt(i, IntLit(u.Len()))), "array index out of range")
			return func(v Val) {
				cur := vc.term(vc.evalExpr(fr, st, l.X))
				if cur.Sort == SBox {
					vc.storeElemPath(st, vc.elemKey(u.Elem()), u.Elem(), Term{cur.S, SInt}, i, v, l.Pos())
					return
				}
				vc.assignTo(fr, st, l.X, Store(cur, i, vc.term(v)))
			}
		case *types.Map:
			return func(v Val) {
				vc.errorf(l.Pos(), "map assignment is outside the supported subset")
			}
		}
	case *ast.SelectorExpr:
		sel, ok := fr.ctx.info.Selections[l]
		if ok && sel.Kind() == types.FieldVal {
			path := sel.Index()
			if ep, ok := vc.elemPtrOf(fr, st, l.X); ok && len(path) == 1 {
				f := structOf(ep.Elem).Field(path[0])
				return func(v Val) {
					vc.storeElemPath(st, ep.Key+"."+f.Name(), f.Type(), ep.Base, ep.Idx, v, l.Pos())
				}
			}
			if ref, t, ok := vc.selBase(fr, st, l.X); ok {
				if r, ok := vc.walkRef(st, ref, t, path[:len(path)-1], l.Pos()); ok {
					owner := vc.ownerAt(t, path[:len(path)-1])
					return func(v Val) {
						vc.storeField(st, owner, path[len(path)-1], r, v, l.Pos())
					}
				}
			}
			// field of a struct element of a slice: s[i].f = v
			if ix, ok := l.X.(*ast.IndexExpr); ok {
				xt := fr.typeOf(ix.X)
				if sl, ok := xt.Underlying().(*types.Slice); ok && structOf(sl.Elem()) != nil && len(path) == 1 {
					s := vc.term(vc.evalExpr(fr, st, ix.X))
					i := vc.term(vc.evalExpr(fr, st, ix.Index))
					vc.oblige(st, "safety", "index", l.Pos(), And(Le(IntLit(0), i), Lt(i, SLen(s))), "index out of range")
					f := structOf(sl.Elem()).Field(path[0])
					return func(v Val) {
						vc.storeElemPath(st, vc.elemKey(sl.Elem())+"."+f.Name(), f.Type(), SBase(s), Add(SOff(s), i), v, l.Pos())
					}
				}
			}
		}
	case *ast.StarExpr:
		p := vc.term(vc.evalExpr(fr, st, l.X))
		vc.oblige(st, "safety", "nil", l.Pos(), Not(Eq(p, IntLit(0))), "nil pointer dereference")
		t := fr.typeOf(l)
		return func(v Val) {
			if structOf(t) != nil {
				vc.storeStruct(st, t, p, v.(*StructV), l.Pos())
				return
			}
			key := "P:" + typeKey(t)
			h := vc.heap(st, key, ArrSort(vc.sortOf(t)))
			vc.frameCheckField(st, key, p, l.Pos())
			vc.setHeap(st, key, Store(h, p, vc.term(v)))
		}
	}
	vc.errorf(lhs.Pos(), "unsupported assignment target %T", lhs)
	return func(Val) {}
}

func (vc *VC) execReturn(fr *frame, st *State, x *ast.ReturnStmt) {
	res := fr.sig.Results()
	var vals []Val
	switch {
	case len(x.Results) == 0:
		for _, rv := range fr.results {
			vals = append(vals, vc.readVar(fr, st, rv, x.Pos()))
		}
	case len(x.Results) == 1 && res.Len() > 1:
		tv, _ := vc.evalExpr(fr, st, x.Results[0]).(TupleV)
		// `return f()` with a multi-value f: each value is converted to the result type (boxing into interfaces)
		if tup, ok := fr.typeOf(x.Results[0]).(*types.Tuple); ok && tup.Len() == len(tv) {
			conv := make(TupleV, len(tv))
			for i := range tv {
				conv[i] = vc.convertAssign(fr, st, tv[i], tup.At(i).Type(), res.At(i).Type())
			}
			tv = conv
		}
		vals = tv
	default:
		for i, r := range x.Results {
			want := res.At(i).Type()
			v := vc.evalExprT(fr, st, r, want)
			v = vc.convertAssign(fr, st, v, fr.typeOf(r), want)
			vals = append(vals, v)
		}
	}
	if st.pc.S == "false" {
		return
	}
	fr.returns = append(fr.returns, &retState{st: st, vals: vals})
}

// ---------------------------------------------------------------------------
// switch

func (vc *VC) execSwitch(fr *frame, st *State, x *ast.SwitchStmt, label string) *State {
	if x.Init != nil {
		st = vc.execStmt(fr, st, x.Init)
		if st == nil {
			return nil
		}
	}
	var tag Val
	var tagT types.Type
	if x.Tag != nil {
		tag = vc.evalExpr(fr, st, x.Tag)
		tagT = fr.typeOf(x.Tag)
	}
	bc := &jumpCollector{label: label}
	fr.breaks = append(fr.breaks, bc)
	defer func() { fr.breaks = fr.breaks[:len(fr.breaks)-1] }()
	var outs []*State
	var fallIn *State
	notPrev := True
	var deflt *ast.CaseClause
	cur := st
	for _, cs := range x.Body.List {
		cc := cs.(*ast.CaseClause)
		if cc.List == nil {
			deflt = cc
			continue
		}
		var conds []Term
		for _, e := range cc.List {
			if tag != nil {
				v := vc.evalExpr(fr, cur, e)
				conds = append(conds, vc.valEq(tag, v, tagT, fr.typeOf(e)))
			} else {
				sub := cur.clone()
				sub.pc = vc.newPC(cur, And(notPrev, Not(Or(conds...))))
				c := vc.term(vc.evalExpr(fr, sub, e))
				conds = append(conds, c)
			}
		}
		cond := Or(conds...)
		s1 := cur.clone()
		s1.pc = vc.newPC(cur, And(notPrev, cond))
		// a preceding clause that ended in `fallthrough` continues here
		if fallIn != nil {
			s1 = vc.merge(s1, fallIn)
			fallIn = nil
		}
		body := cc.Body
		falls := false
		if n := len(body); n > 0 {
			if b, ok := body[n-1].(*ast.BranchStmt); ok && b.Tok == token.FALLTHROUGH {
				falls = true
				body = body[:n-1]
			}
		}
		res := vc.execBlock(fr, s1, body)
		if falls {
			fallIn = res
		} else {
			outs = append(outs, res)
		}
		notPrev = And(notPrev, Not(cond))
	}
	sd := cur.clone()
	sd.pc = vc.newPC(cur, notPrev)
	if deflt != nil {
		if fallIn != nil {
			// fallthrough into a trailing default clause
			sd = vc.merge(sd, fallIn)
			fallIn = nil
		}
		outs = append(outs, vc.execBlock(fr, sd, deflt.Body))
	} else {
		outs = append(outs, sd)
	}
	if fallIn != nil {
		outs = append(outs, fallIn)
	}
	outs = append(outs, bc.states...)
	if vc.splitJoins {
		var live []*State
		for _, o := range outs {
			if o != nil {
				live = append(live, o)
			}
		}
		m := vc.merge(outs...)
		vc.pendingOuts = live
		return m
	}
	return vc.merge(outs...)
}

func (vc *VC) execTypeSwitch(fr *frame, st *State, x *ast.TypeSwitchStmt, label string) *State {
	if x.Init != nil {
		st = vc.execStmt(fr, st, x.Init)
		if st == nil {
			return nil
		}
	}
	var subject ast.Expr
	switch a := x.Assign.(type) {
	case *ast.AssignStmt:
		subject = a.Rhs[0].(*ast.TypeAssertExpr).X
	case *ast.ExprStmt:
		subject = a.X.(*ast.TypeAssertExpr).X
	}
	iv := vc.term(vc.evalExpr(fr, st, subject))
	bc := &jumpCollector{label: label}
	fr.breaks = append(fr.breaks, bc)
	defer func() { fr.breaks = fr.breaks[:len(fr.breaks)-1] }()
	var outs []*State
	notPrev := True
	var deflt *ast.CaseClause
	for _, cs := range x.Body.List {
		cc := cs.(*ast.CaseClause)
		if cc.List == nil {
			deflt = cc
			continue
		}
		var conds []Term
		var single types.Type
		for _, e := range cc.List {
			if id, ok := e.(*ast.Ident); ok && id.Name == "nil" {
				conds = append(conds, Eq(ITag(iv), IntLit(0)))
				continue
			}
			t := fr.typeOf(e)
			conds = append(conds, vc.hasDynType(iv, t))
			if len(cc.List) == 1 {
				single = t
			}
		}
		cond := Or(conds...)
		s1 := st.clone()
		s1.pc = vc.newPC(st, And(notPrev, cond))
		if o, ok := fr.ctx.info.Implicits[cc].(*types.Var); ok {
			if single != nil {
				if _, isI := single.Underlying().(*types.Interface); isI {
					s1.vars[o] = iv
				} else {
					vc.bindVar(s1, o, vc.fromIface(s1, iv, single))
				}
			} else {
				s1.vars[o] = iv
			}
		}
		outs = append(outs, vc.execBlock(fr, s1, cc.Body))
		notPrev = And(notPrev, Not(cond))
	}
	sd := st.clone()
	sd.pc = vc.newPC(st, notPrev)
	if deflt != nil {
		if o, ok := fr.ctx.info.Implicits[deflt].(*types.Var); ok {
			sd.vars[o] = iv
		}
		outs = append(outs, vc.execBlock(fr, sd, deflt.Body))
	} else {
		outs = append(outs, sd)
	}
	outs = append(outs, bc.states...)
	return vc.merge(outs...)
}

// ---------------------------------------------------------------------------
// loops

type loopDesc struct {
	ord      int
	pos      token.Pos
	label    string
	cond     func(st *State) Term // nil => true
	pre      func(st *State)      // executed at the start of each iteration (range binding)
	body     *ast.BlockStmt
	post     func(st *State) *State
	nodes    []ast.Node // for effect / assignment analysis
	extraInv func(st *State) []Term
	idx      *Term
	havocVar []*types.Var
}

func (vc *VC) assignedVars(fr *frame, nodes []ast.Node) []*types.Var {
	seen := map[*types.Var]bool{}
	var out []*types.Var
	add := func(e ast.Expr) {
		for {
			switch x := e.(type) {
			case *ast.ParenExpr:
				e = x.X
				continue
			case *ast.IndexExpr:
				// array-valued locals are updated by element assignment
				if t := fr.ctx.info.TypeOf(x.X); t != nil {
					if _, ok := t.Underlying().(*types.Array); ok {
						e = x.X
						continue
					}
				}
			}
			break
		}
		if id, ok := e.(*ast.Ident); ok {
			if o, ok := fr.ctx.info.ObjectOf(id).(*types.Var); ok && !seen[o] {
				seen[o] = true
				out = append(out, o)
			}
		}
	}
	for _, n := range nodes {
		if n == nil {
			continue
		}
		ast.Inspect(n, func(n ast.Node) bool {
			switch s := n.(type) {
			case *ast.AssignStmt:
				for _, l := range s.Lhs {
					add(l)
				}
			case *ast.IncDecStmt:
				add(s.X)
			case *ast.RangeStmt:
				if s.Key != nil {
					add(s.Key)
				}
				if s.Value != nil {
					add(s.Value)
				}
			}
			return true
		})
	}
	return out
}

func (vc *VC) execLoop(fr *frame, st *State, ld *loopDesc) *State {
	var spec *LoopSpec
	if fr.contract != nil {
		spec = fr.contract.Loops[ld.ord]
	}
	fname := ShortKey(fr.fnKey())
	tag := fmt.Sprintf("loop%d", ld.ord)
	if fr.inlined {
		tag = fmt.Sprintf("loop%d@%s", ld.ord, fname)
	}
	// 1. invariants hold on entry
	checkInv := func(s *State, kind string) {
		if spec == nil {
			return
		}
		for i, inv := range spec.Invariants {
			lbl := inv.Label
			if lbl == "" {
				lbl = fmt.Sprintf("%d", i+1)
			}
			g := vc.evalClause(fr, s, nil, inv, nil)
			for _, cj := range splitConj(g) {
				vc.oblige(s, kind, tag+"."+lbl, ld.pos, cj, inv.Text)
			}
		}
	}
	fr.curLoop = append(fr.curLoop, ld.ord)
	savedPos := fr.specPos
	loopPos := ld.body.Lbrace + 1
	fr.specPos = loopPos
	defer func() { fr.curLoop = fr.curLoop[:len(fr.curLoop)-1]; fr.specPos = savedPos }()
	if fr.ghosts == nil {
		fr.ghosts = map[string]binding{}
	}
	if spec != nil {
		for _, gv := range spec.Ghosts {
			env := vc.envFor(fr, st, nil, nil)
			t := env.resolveType(gv.Type)
			if t == nil {
				vc.errorf(ld.pos, "loop ghost %s: unknown type %s", gv.Name, gv.Type)
				t = tInt
			}
			v, _ := env.evalTerm(gv.Init.Expr)
			fr.ghosts[gv.Name] = binding{v, t}
		}
	}
	vc.applyHints(fr, st, fmt.Sprintf("loop%d.before", ld.ord))
	if spec != nil && spec.Unreachable {
		// the contract claims the loop never runs: its condition is false on entry
		c := True
		if ld.cond != nil {
			c = ld.cond(st)
		}
		vc.oblige(st, "unreachable", tag, ld.pos, Not(c), "loop does not execute under the precondition")
		vc.assume(st, Not(c))
		return st
	}
	checkInv(st, "inv-init")
	// 2. havoc
	entry := st.clone()
	head := st.clone()
	eff := newEffects()
	for _, n := range ld.nodes {
		eff.add(vc.effectsOfNode(fr.ctx, n))
	}
	// calls through unresolved function values are proved unreachable (safety#funcvalue), so their
	// effects need not be havocked here.
	for _, o := range vc.assignedVars(fr, ld.nodes) {
		if old, ok := head.vars[o]; ok {
			if structOf(o.Type()) != nil {
				continue // boxed: covered by heap havoc
			}
			nv := vc.havocVal(o.Type(), o.Name())
			vc.assume(head, vc.typeFacts(nv, o.Type(), Term{"alloc?", SInt}))
			_ = old
			head.vars[o] = nv
		}
	}
	if spec != nil {
		for _, gv := range spec.Ghosts {
			b := fr.ghosts[gv.Name]
			fr.ghosts[gv.Name] = binding{vc.fresh("ghost!"+gv.Name, vc.sortOf(b.T)), b.T}
		}
	}
	headGhosts := map[string]binding{}
	for k, v := range fr.ghosts {
		headGhosts[k] = v
	}
	if ld.idx != nil {
		nv := vc.fresh("idx", SInt)
		*ld.idx = nv
		fr.idxVars[ld.ord] = nv
	}
	// allocation counter may grow
	if len(eff.Heaps) > 0 {
		na := vc.fresh("alloc", SInt)
		vc.assume(head, Ge(na, head.alloc))
		head.alloc = na
	}
	for _, k := range sortedKeys(eff.Heaps) {
		srt := eff.Heaps[k]
		if srt == "" {
			srt = vc.heapSort[k]
		}
		oldH := vc.heap(entry, k, srt)
		nh := vc.fresh("H!"+k, oldH.Sort)
		head.heaps[k] = nh
		vc.linkHeaps(k, nh, oldH)
		vc.loopFrameFacts(head, entry, k, oldH, nh, spec, fr)
		vc.heapInvariant(nh, head.alloc, head.pc)
		vc.heapRange(k, nh, head.pc)
	}
	// fix typeFacts alloc placeholder
	vc.patchAllocPlaceholder(head.alloc)
	if spec != nil {
		for _, inv := range spec.Invariants {
			vc.assume(head, vc.evalClause(fr, head, nil, inv, nil))
		}
	}
	if ld.extraInv != nil {
		for _, t := range ld.extraInv(head) {
			vc.assume(head, t)
		}
	}
	// 3. condition
	c := True
	if ld.cond != nil {
		c = ld.cond(head)
	}
	exit := head.clone()
	exit.pc = vc.newPC(head, Not(c))
	body := head.clone()
	body.pc = vc.newPC(head, c)
	if spec != nil && spec.Unreachable {
		// the contract claims the loop body is dead code under the precondition: prove it
		vc.oblige(body, "unreachable", tag, ld.pos, False, "loop body is unreachable under the precondition")
		body.pc = False
	} else if !vc.noSafety && !fr.inlined {
		o := vc.oblige(body, "canary", tag, ld.pos, False, "loop body reachable under invariant")
		if o != nil {
			o.Canary = true
		}
	}
	var dec0 Term
	hasDec := spec != nil && spec.Decreases != nil
	if hasDec {
		dec0 = vc.term(vc.evalSpec(fr, body, nil, spec.Decreases.Expr, nil))
		dec0 = vc.define("dec", dec0)
	}
	vc.applyHints(fr, body, fmt.Sprintf("loop%d.body", ld.ord))
	bc := &jumpCollector{label: ld.label}
	cc := &jumpCollector{label: ld.label}
	fr.breaks = append(fr.breaks, bc)
	fr.conts = append(fr.conts, cc)
	if ld.pre != nil {
		ld.pre(body)
	}
	end := vc.execBlock(fr, body, ld.body.List)
	fr.breaks = fr.breaks[:len(fr.breaks)-1]
	fr.conts = fr.conts[:len(fr.conts)-1]
	fr.specPos = loopPos
	end = vc.merge(append([]*State{end}, cc.states...)...)
	if end != nil && ld.post != nil {
		end = ld.post(end)
	}
	if end != nil && spec != nil {
		for _, gv := range spec.Ghosts {
			env := vc.envFor(fr, end, nil, nil)
			v, _ := env.evalTerm(gv.Step.Expr)
			b := fr.ghosts[gv.Name]
			fr.ghosts[gv.Name] = binding{vc.define("ghost!"+gv.Name, v), b.T}
		}
	}
	if end != nil {
		vc.applyHints(fr, end, fmt.Sprintf("loop%d.end", ld.ord))
		checkInv(end, "inv-keep")
		if hasDec {
			d1 := vc.term(vc.evalSpec(fr, end, nil, spec.Decreases.Expr, nil))
			vc.oblige(end, "decreases", tag, ld.pos, And(Le(vc.zeroOfSort(dec0.Sort), dec0), Lt(d1, dec0)), spec.Decreases.Text)
		}
	}
	// on exit the ghost variables have their loop-head values
	for k, v := range headGhosts {
		fr.ghosts[k] = v
	}
	return vc.merge(append([]*State{exit}, bc.states...)...)
}

func (fr *frame) fnKey() string {
	if fr.fn != nil {
		return fr.fn.Key
	}
	return "closure"
}

// patchAllocPlaceholder replaces the alloc? placeholder used in type facts emitted during havoc.
func (vc *VC) patchAllocPlaceholder(alloc Term) {
	for i := len(vc.facts) - 1; i >= 0 && i >= len(vc.facts)-64; i-- {
		if containsWord(vc.facts[i], "alloc?") {
			vc.facts[i] = replaceWord(vc.facts[i], "alloc?", alloc.S)
		}
	}
}

func containsWord(s, w string) bool {
	for i := 0; i+len(w) <= len(s); i++ {
		if s[i:i+len(w)] == w {
			return true
		}
	}
	return false
}

func replaceWord(s, w, r string) string {
	out := ""
	for {
		i := indexOf(s, w)
		if i < 0 {
			return out + s
		}
		out += s[:i] + r
		s = s[i+len(w):]
	}
}

func indexOf(s, w string) int {
	for i := 0; i+len(w) <= len(s); i++ {
		if s[i:i+len(w)] == w {
			return i
		}
	}
	return -1
}

// loopFrameFacts states what a loop cannot have changed in heap k.
func (vc *VC) loopFrameFacts(head, entry *State, k string, oldH, nh Term, spec *LoopSpec, fr *frame) {
	isField := oldH.Sort != HeapSort(SInt) && !isHeapSort(oldH.Sort)
	// (a) function-level frame: objects that existed at function entry and are outside
	//     the modifies clause still hold their entry contents.
	if vc.checkFrm && !fr.inlinedNoFrame() {
		h0 := vc.heaps0[k]
		if h0.S != "" {
			if isField {
				r := Term{"r?", SInt}
				var ex []Term
				for _, m := range vc.modLocs {
					if m.field && m.heap == k {
						ex = append(ex, Eq(r, m.base))
					}
				}
				vc.assume(head, Forall([]Term{r}, [][]Term{{Select(nh, r)}},
					Implies(And(Lt(r, vc.alloc0), Not(Or(ex...))), Eq(Select(nh, r), Select(h0, r)))))
			} else {
				b, j := Term{"b?", SInt}, Term{"j?", SInt}
				var ex []Term
				for _, m := range vc.modLocs {
					if !m.field && m.heap == k {
						ex = append(ex, And(Eq(b, m.base), Le(m.lo, j), Lt(j, m.hi)))
					}
				}
				if len(ex) == 0 {
					vc.assume(head, Forall([]Term{b}, [][]Term{{Select(nh, b)}},
						Implies(Lt(b, vc.alloc0), Eq(Select(nh, b), Select(h0, b)))))
				} else {
					vc.assume(head, Forall([]Term{b, j}, [][]Term{{Select(Select(nh, b), j)}},
						Implies(And(Lt(b, vc.alloc0), Not(Or(ex...))), Eq(Select(Select(nh, b), j), Select(Select(h0, b), j)))))
				}
			}
		}
	}
	// (b) loop-level modifies clause, relative to the heap at loop entry
	if spec != nil && len(spec.Modifies) > 0 {
		locs := vc.evalModifies(fr, entry, spec.Modifies, nil)
		vc.frameFacts(head, k, oldH, nh, locs, entry.alloc)
	}
}

func isHeapSort(s Sort) bool {
	str := string(s)
	return len(str) > 22 && str[:22] == "(Array Int (Array Int "
}

func (fr *frame) inlinedNoFrame() bool { return false }

// frameFacts: nh agrees with oldH on everything allocated before `alloc` except locs.
func (vc *VC) frameFacts(st *State, k string, oldH, nh Term, locs []modLoc, alloc Term) {
	if !isHeapSort(oldH.Sort) {
		r := Term{"r?", SInt}
		var ex []Term
		for _, m := range locs {
			if m.field && m.heap == k {
				ex = append(ex, Eq(r, m.base))
			}
		}
		vc.assume(st, Forall([]Term{r}, [][]Term{{Select(nh, r)}},
			Implies(And(Lt(r, alloc), Not(Or(ex...))), Eq(Select(nh, r), Select(oldH, r)))))
		return
	}
	b, j := Term{"b?", SInt}, Term{"j?", SInt}
	var ex []Term
	for _, m := range locs {
		if !m.field && m.heap == k {
			ex = append(ex, And(Eq(b, m.base), Le(m.lo, j), Lt(j, m.hi)))
		}
	}
	if len(ex) == 0 {
		vc.assume(st, Forall([]Term{b}, [][]Term{{Select(nh, b)}},
			Implies(Lt(b, alloc), Eq(Select(nh, b), Select(oldH, b)))))
		return
	}
	vc.assume(st, Forall([]Term{b, j}, [][]Term{{Select(Select(nh, b), j)}},
		Implies(And(Lt(b, alloc), Not(Or(ex...))), Eq(Select(Select(nh, b), j), Select(Select(oldH, b), j)))))
	// whole arrays that the callee cannot touch are equal as arrays (what the pointwise fact gives by
	// extensionality): stated for every base, and instantiated for the slice parameters so that the
	// quantifier-free relaxations keep ghost functions over cells(p) stable across the call
	var bases []Term
	for _, m := range locs {
		if !m.field && m.heap == k {
			bases = append(bases, Eq(b, m.base))
		}
	}
	// (a quantified version over all bases was tried and made unrelated proofs 100x slower; only the
	// instances below are emitted)
	_ = bases
	for _, ps := range vc.paramSlices {
		if ps.key != k {
			continue
		}
		pb := SBase(ps.t)
		var hit []Term
		for _, m := range locs {
			if !m.field && m.heap == k {
				hit = append(hit, Eq(pb, m.base))
			}
		}
		vc.assume(st, Implies(Not(Or(hit...)), Eq(Select(nh, pb), Select(oldH, pb))))
	}
}

func (vc *VC) execFor(fr *frame, st *State, x *ast.ForStmt, label string) *State {
	if x.Init != nil {
		st = vc.execStmt(fr, st, x.Init)
		if st == nil {
			return nil
		}
	}
	ld := &loopDesc{ord: fr.loopOrd[x], pos: x.Pos(), label: label, body: x.Body}
	ld.nodes = []ast.Node{x.Body}
	if x.Cond != nil {
		ld.nodes = append(ld.nodes, x.Cond)
		ld.cond = func(s *State) Term { return vc.term(vc.evalExpr(fr, s, x.Cond)) }
	}
	if x.Post != nil {
		ld.nodes = append(ld.nodes, x.Post)
		ld.post = func(s *State) *State { return vc.execStmt(fr, s, x.Post) }
	}
	return vc.execLoop(fr, st, ld)
}

func (vc *VC) execRange(fr *frame, st *State, x *ast.RangeStmt, label string) *State {
	xt := fr.typeOf(x.X)
	ord := fr.rangeOrd[x]
	var idx Term
	ld := &loopDesc{ord: ord, pos: x.Pos(), label: label, body: x.Body, idx: &idx}
	ld.nodes = []ast.Node{x.Body}
	bindKV := func(s *State, key, val Val) {
		set := func(e ast.Expr, v Val) {
			if e == nil || v == nil {
				return
			}
			if id, ok := e.(*ast.Ident); ok && id.Name == "_" {
				return
			}
			vc.lvalue(fr, s, e, x.Tok == token.DEFINE)(v)
		}
		set(x.Key, key)
		set(x.Value, val)
	}
	var n Term
	var elemLoad func(s *State) Val
	switch u := xt.Underlying().(type) {
	case *types.Slice:
		sl := vc.term(vc.evalExpr(fr, st, x.X))
		sl = vc.define("rng", sl)
		n = SLen(sl)
		elemLoad = func(s *State) Val { return vc.loadElem(s, u.Elem(), sl, idx) }
	case *types.Basic:
		if u.Info()&types.IsInteger != 0 {
			n = vc.term(vc.evalExpr(fr, st, x.X))
			n = vc.define("rngn", n)
		} else if u.Info()&types.IsString != 0 {
			// range over a string decodes runes: over-approximated by an arbitrary number of iterations, each
			// with an arbitrary byte offset inside the string and an arbitrary rune (sound for safety and
			// for invariants that do not depend on the decoded values)
			str := vc.term(vc.evalExpr(fr, st, x.X))
			str = vc.define("rngs", str)
			ld.cond = func(s *State) Term { return vc.fresh("more", SBool) }
			ld.pre = func(s *State) {
				j := vc.fresh("roff", SInt)
				c := vc.fresh("rune", SInt)
				vc.assume(s, And(Le(IntLit(0), j), Lt(j, SLen(str)), Le(IntLit(0), c), Le(c, IntLit(0x10FFFF))))
				bindKV(s, j, c)
			}
			init := st.clone()
			idx = IntLit(0)
			fr.idxVars[ord] = idx
			return vc.execLoop(fr, init, ld)
		}
	case *types.Array:
		arr := vc.term(vc.evalExpr(fr, st, x.X))
		n = IntLit(u.Len())
		elemLoad = func(s *State) Val { return Select(arr, idx) }
	default:
		vc.errorf(x.Pos(), "range over %s is outside the supported subset", xt)
		return st
	}
	// pre-bind key/value variables so havoc sees them (define form declares per-iteration vars)
	init := st.clone()
	idx = IntLit(0)
	fr.idxVars[ord] = idx
	// invariants on entry are evaluated with idx == 0
	ld.cond = func(s *State) Term { return Lt(idx, n) }
	ld.extraInv = func(s *State) []Term { return []Term{Le(IntLit(0), idx), Le(idx, n)} }
	ld.pre = func(s *State) {
		var v Val
		if x.Value != nil && elemLoad != nil {
			v = elemLoad(s)
		}
		bindKV(s, idx, v)
	}
	ld.post = func(s *State) *State {
		nidx := vc.define("idx", Add(idx, IntLit(1)))
		idx = nidx
		fr.idxVars[ord] = nidx
		return s
	}
	return vc.execLoop(fr, init, ld)
}
