package vc

import (
	"fmt"
	"go/ast"
	"go/constant"
	"go/token"
	"go/types"
	"math"
	"math/big"
	"strconv"
	"strings"
)

func (fr *frame) typeOf(e ast.Expr) types.Type {
	if tv, ok := fr.ctx.info.Types[e]; ok {
		return tv.Type
	}
	if id, ok := e.(*ast.Ident); ok {
		if o := fr.ctx.info.ObjectOf(id); o != nil {
			return o.Type()
		}
	}
	return nil
}

// constVal converts a Go constant into a value of type t.
func (vc *VC) constVal(cv constant.Value, t types.Type) (Val, bool) {
	switch cv.Kind() {
	case constant.Bool:
		if constant.BoolVal(cv) {
			return True, true
		}
		return False, true
	case constant.Int:
		if t != nil && isFloat(t) {
			f, _ := constant.Float64Val(cv)
			return vc.floatLit(f, cv), true
		}
		if i, ok := constant.Int64Val(cv); ok {
			return IntLit(i), true
		}
		bi, ok := new(big.Int).SetString(cv.ExactString(), 10)
		if ok {
			return BigIntLit(bi), true
		}
	case constant.Float:
		if t != nil && isInteger(t) {
			if i, ok := constant.Int64Val(constant.ToInt(cv)); ok {
				return IntLit(i), true
			}
		}
		f, _ := constant.Float64Val(cv)
		return vc.floatLit(f, cv), true
	case constant.String:
		return vc.stringLit(constant.StringVal(cv)), true
	}
	return nil, false
}

func (vc *VC) floatLit(f float64, cv constant.Value) Term {
	if vc.Mode == "opaque" {
		return vc.f64Const(math.Float64bits(f))
	}
	if math.IsInf(f, 1) {
		return vc.declConst("PINF", SReal)
	}
	if math.IsInf(f, -1) {
		return vc.declConst("NINF", SReal)
	}
	// exact rational of the float64 value
	r := new(big.Rat)
	r.SetFloat64(f)
	return RatLit(r)
}

// stringLit models a string constant as an immutable byte array.
func (vc *VC) stringLit(s string) Term {
	name := fmt.Sprintf("str!%x", []byte(s))
	if len(name) > 60 {
		name = fmt.Sprintf("str!h%x!%d", hashStr(s), len(s))
	}
	base := Term{name, SInt}
	if !vc.declSet[name] {
		vc.declConst(name, SInt)
		h := vc.strHeap()
		vc.assumeGlobal(And(Gt(base, IntLit(0)), Lt(base, Term{"alloc0", SInt})))
		if len(s) <= 64 {
			for i := 0; i < len(s); i++ {
				vc.assumeGlobal(Eq(Select(Select(h, base), IntLit(int64(i))), IntLit(int64(s[i]))))
			}
		}
	}
	return MkSlice(base, IntLit(0), IntLit(int64(len(s))), IntLit(int64(len(s))))
}

func hashStr(s string) uint32 {
	var h uint32 = 2166136261
	for i := 0; i < len(s); i++ {
		h = (h ^ uint32(s[i])) * 16777619
	}
	return h
}

func (vc *VC) strHeap() Term {
	key := "E:str"
	if h, ok := vc.heaps0[key]; ok {
		return h
	}
	h := vc.declConst("H0!E_str", HeapSort(SInt))
	vc.heaps0[key] = h
	vc.heapSort[key] = HeapSort(SInt)
	b, i := Term{"b?", SInt}, Term{"i?", SInt}
	cell := Select(Select(h, b), i)
	vc.assumeGlobal(Forall([]Term{b, i}, [][]Term{{cell}}, And(Le(IntLit(0), cell), Lt(cell, IntLit(256)))))
	return h
}

// ---------------------------------------------------------------------------

func (vc *VC) evalExpr(fr *frame, st *State, e ast.Expr) Val {
	if tv, ok := fr.ctx.info.Types[e]; ok && tv.Value != nil {
		if v, ok := vc.constVal(tv.Value, tv.Type); ok {
			return v
		}
	}
	switch x := e.(type) {
	case *ast.ParenExpr:
		return vc.evalExpr(fr, st, x.X)
	case *ast.BasicLit:
		vc.errorf(e.Pos(), "unhandled literal %s", x.Value)
		return IntLit(0)
	case *ast.Ident:
		return vc.evalIdent(fr, st, x)
	case *ast.SelectorExpr:
		return vc.evalSelector(fr, st, x)
	case *ast.IndexExpr:
		return vc.evalIndex(fr, st, x)
	case *ast.SliceExpr:
		return vc.evalSliceExpr(fr, st, x)
	case *ast.StarExpr:
		p := vc.term(vc.evalExpr(fr, st, x.X))
		t := fr.typeOf(e)
		vc.oblige(st, "safety", "nil", e.Pos(), Not(Eq(p, IntLit(0))), "nil pointer dereference")
		if structOf(t) != nil {
			return vc.loadStruct(st, t, p)
		}
		key := "P:" + typeKey(t)
		h := vc.heap(st, key, ArrSort(vc.sortOf(t)))
		return Select(h, p)
	case *ast.UnaryExpr:
		return vc.evalUnary(fr, st, x)
	case *ast.BinaryExpr:
		return vc.evalBinary(fr, st, x)
	case *ast.CallExpr:
		return vc.evalCall(fr, st, x)
	case *ast.CompositeLit:
		return vc.evalComposite(fr, st, x, false)
	case *ast.TypeAssertExpr:
		v, _ := vc.evalTypeAssert(fr, st, x, false)
		return v
	case *ast.FuncLit:
		return &FuncV{Lit: x, Pkg: fr.ctx}
	}
	vc.errorf(e.Pos(), "unsupported expression %T", e)
	return vc.havocVal(fr.typeOf(e), "unsup")
}

// havocVal creates an arbitrary value of type t (with its type invariants assumed).
func (vc *VC) havocVal(t types.Type, name string) Val {
	if t == nil {
		return vc.fresh(name, SInt)
	}
	if tup, ok := t.(*types.Tuple); ok {
		out := make(TupleV, tup.Len())
		for i := range out {
			out[i] = vc.havocVal(tup.At(i).Type(), name)
		}
		return out
	}
	if s := structOf(t); s != nil {
		sv := &StructV{T: t, F: make([]Val, s.NumFields())}
		for i := range sv.F {
			sv.F[i] = vc.havocVal(s.Field(i).Type(), name+"."+s.Field(i).Name())
		}
		return sv
	}
	c := vc.fresh(name, vc.sortOf(t))
	return c
}

// typeFacts returns the invariants implied by t's static type for value v,
// relative to allocation bound alloc.
func (vc *VC) typeFacts(v Val, t types.Type, alloc Term) Term {
	if sv, ok := v.(*StructV); ok {
		s := structOf(t)
		var fs []Term
		for i := range sv.F {
			fs = append(fs, vc.typeFacts(sv.F[i], s.Field(i).Type(), alloc))
		}
		return And(fs...)
	}
	tm, ok := v.(Term)
	if !ok {
		return True
	}
	switch u := t.Underlying().(type) {
	case *types.Basic:
		if u.Info()&types.IsInteger != 0 {
			lo, hi := intRange(u)
			if lo != nil {
				return And(Le(BigIntLit(lo), tm), Le(tm, BigIntLit(hi)))
			}
		}
		if u.Info()&types.IsString != 0 {
			return And(vc.sliceOK(tm), Lt(SBase(tm), alloc), Eq(SLen(tm), SCap(tm)))
		}
	case *types.Slice:
		return And(vc.sliceOK(tm), Lt(SBase(tm), alloc))
	case *types.Pointer, *types.Map:
		return And(Le(IntLit(0), tm), Lt(tm, alloc))
	case *types.Interface:
		return And(Le(IntLit(0), ITag(tm)), Lt(IVal(tm), alloc), Implies(Eq(ITag(tm), IntLit(0)), Eq(IVal(tm), IntLit(0))))
	}
	return True
}

func intRange(b *types.Basic) (lo, hi *big.Int) {
	two := big.NewInt(2)
	pow := func(n int64) *big.Int { return new(big.Int).Exp(two, big.NewInt(n), nil) }
	m1 := func(x *big.Int) *big.Int { return new(big.Int).Sub(x, big.NewInt(1)) }
	switch b.Kind() {
	case types.Uint8:
		return big.NewInt(0), m1(pow(8))
	case types.Uint16:
		return big.NewInt(0), m1(pow(16))
	case types.Uint32:
		return big.NewInt(0), m1(pow(32))
	case types.Uint64, types.Uint, types.Uintptr:
		return big.NewInt(0), m1(pow(64))
	case types.Int8:
		return new(big.Int).Neg(pow(7)), m1(pow(7))
	case types.Int16:
		return new(big.Int).Neg(pow(15)), m1(pow(15))
	case types.Int32:
		return new(big.Int).Neg(pow(31)), m1(pow(31))
	}
	return nil, nil // int, int64: mathematical
}

func (vc *VC) evalIdent(fr *frame, st *State, id *ast.Ident) Val {
	if id.Name == "_" {
		return IntLit(0)
	}
	obj := fr.ctx.info.ObjectOf(id)
	switch o := obj.(type) {
	case *types.Nil:
		t := fr.typeOf(id)
		if t != nil {
			return vc.zeroVal(t)
		}
		return IntLit(0)
	case *types.Var:
		return vc.readVar(fr, st, o, id.Pos())
	case *types.Func:
		if fi, ok := vc.P.ByObj[o]; ok {
			return &FuncV{Fn: fi}
		}
		return &FuncV{Ext: o}
	case *types.Const:
		if v, ok := vc.constVal(o.Val(), o.Type()); ok {
			return v
		}
	}
	vc.errorf(id.Pos(), "unsupported identifier %s (%T)", id.Name, obj)
	return vc.havocVal(fr.typeOf(id), id.Name)
}

func (vc *VC) readVar(fr *frame, st *State, o *types.Var, pos token.Pos) Val {
	if v, ok := st.vars[o]; ok {
		if bt, isT := v.(Term); isT && bt.Sort == SPBox {
			key := "P:" + typeKey(o.Type())
			h := vc.heap(st, key, ArrSort(vc.sortOf(o.Type())))
			return Select(h, Term{bt.S, SInt})
		}
		if structOf(o.Type()) != nil {
			if ref, isRef := v.(Term); isRef {
				return vc.loadStruct(st, o.Type(), ref)
			}
		}
		return v
	}
	if o.Pkg() != nil && o.Parent() == o.Pkg().Scope() {
		return vc.readGlobal(st, o)
	}
	vc.errorf(pos, "read of unbound variable %s", o.Name())
	v := vc.havocVal(o.Type(), o.Name())
	return v
}

// readGlobal models package-level variables as immutable (checked by the C17 sweep).
func (vc *VC) readGlobal(st *State, o *types.Var) Val {
	name := "G!" + smtName(pkgBase(o.Pkg().Path())+"."+o.Name())
	t := o.Type()
	if structOf(t) != nil {
		// struct global: fields as separate constants
		return vc.globalStruct(name, t)
	}
	c := Term{name, vc.sortOf(t)}
	if !vc.declSet[name] {
		vc.declConst(name, c.Sort)
		vc.assumeGlobal(vc.typeFacts(c, t, Term{"alloc0", SInt}))
		if _, isI := t.Underlying().(*types.Interface); isI && strings.HasPrefix(o.Name(), "err") || strings.HasPrefix(o.Name(), "Err") {
			if c.Sort == SIface {
				vc.assumeGlobal(Gt(ITag(c), IntLit(0)))
			}
		}
		// a variable with a constant initialiser that library code never assigns holds that value
		if init, ok := vc.P.globalInit[o]; ok && !vc.P.globalsAssigned[o] {
			for _, pk := range vc.P.Pkgs {
				if tv, ok := pk.TypesInfo.Types[init]; ok && tv.Value != nil {
					if cv, ok := vc.constVal(tv.Value, t); ok {
						if ct, ok := cv.(Term); ok && ct.Sort == c.Sort {
							vc.assumeGlobal(Eq(c, ct))
						}
					}
					break
				}
			}
		}
		// a pointer variable initialised in its declaration by regexp.MustCompile / &T{...} / new(T) and
		// never assigned afterwards (global-write sweep) is not nil
		if _, isPtr := t.Underlying().(*types.Pointer); isPtr && c.Sort == SInt {
			if init, ok := vc.P.globalInit[o]; ok && !vc.P.globalsAssigned[o] {
				nonNil := false
				switch e := init.(type) {
				case *ast.UnaryExpr:
					nonNil = e.Op == token.AND
				case *ast.CallExpr:
					if sel, ok := e.Fun.(*ast.SelectorExpr); ok && (sel.Sel.Name == "MustCompile") {
						nonNil = true
					}
					if id, ok := e.Fun.(*ast.Ident); ok && id.Name == "new" {
						nonNil = true
					}
				}
				if nonNil {
					vc.assumeGlobal(Not(Eq(c, IntLit(0))))
				}
			}
		}
	}
	return c
}

func (vc *VC) globalStruct(name string, t types.Type) *StructV {
	s := structOf(t)
	sv := &StructV{T: t, F: make([]Val, s.NumFields())}
	for i := range sv.F {
		ft := s.Field(i).Type()
		if structOf(ft) != nil {
			sv.F[i] = vc.globalStruct(name+"."+s.Field(i).Name(), ft)
		} else {
			c := vc.declConst(smtName(name+"."+s.Field(i).Name()), vc.sortOf(ft))
			sv.F[i] = c
		}
	}
	return sv
}

// ---------------------------------------------------------------------------
// selectors

// evalAddr returns the object identity holding the struct denoted by e, if e is addressable.
func (vc *VC) evalAddr(fr *frame, st *State, e ast.Expr) (Term, bool) {
	switch x := e.(type) {
	case *ast.ParenExpr:
		return vc.evalAddr(fr, st, x.X)
	case *ast.Ident:
		if o, ok := fr.ctx.info.ObjectOf(x).(*types.Var); ok && structOf(o.Type()) != nil {
			if v, ok := st.vars[o]; ok {
				if ref, ok := v.(Term); ok {
					return ref, true
				}
			}
		}
		// address of a local scalar / slice variable: move it into a heap cell
		if o, ok := fr.ctx.info.ObjectOf(x).(*types.Var); ok && structOf(o.Type()) == nil && vc.sortOf(o.Type()) != "" {
			if _, isArr := o.Type().Underlying().(*types.Array); !isArr {
				if v, ok := st.vars[o]; ok {
					if cur, ok := v.(Term); ok {
						if cur.Sort == SPBox {
							return Term{cur.S, SInt}, true
						}
						ref := vc.allocRef(st, "addr!"+o.Name())
						key := "P:" + typeKey(o.Type())
						h := vc.heap(st, key, ArrSort(vc.sortOf(o.Type())))
						saved := vc.checkFrm
						vc.checkFrm = false
						vc.setHeap(st, key, Store(h, ref, cur))
						vc.checkFrm = saved
						st.vars[o] = Term{ref.S, SPBox}
						return ref, true
					}
				}
			}
		}
	case *ast.StarExpr:
		p := vc.term(vc.evalExpr(fr, st, x.X))
		vc.oblige(st, "safety", "nil", e.Pos(), Not(Eq(p, IntLit(0))), "nil pointer dereference")
		return p, true
	case *ast.SelectorExpr:
		sel, ok := fr.ctx.info.Selections[x]
		if !ok || sel.Kind() != types.FieldVal {
			return Term{}, false
		}
		ref, t, ok := vc.selBase(fr, st, x.X)
		if !ok {
			return Term{}, false
		}
		return vc.walkRef(st, ref, t, sel.Index(), e.Pos())
	}
	return Term{}, false
}

// selBase evaluates the base of a selector to (ref, struct type).
func (vc *VC) selBase(fr *frame, st *State, x ast.Expr) (Term, types.Type, bool) {
	t := fr.typeOf(x)
	if pt, ok := t.Underlying().(*types.Pointer); ok {
		p := vc.term(vc.evalExpr(fr, st, x))
		vc.oblige(st, "safety", "nil", x.Pos(), Not(Eq(p, IntLit(0))), "nil pointer dereference")
		return p, pt.Elem(), true
	}
	if structOf(t) != nil {
		ref, ok := vc.evalAddr(fr, st, x)
		return ref, t, ok
	}
	return Term{}, nil, false
}

// walkRef follows a field index path that must end in a struct-typed field.
func (vc *VC) walkRef(st *State, ref Term, t types.Type, path []int, pos token.Pos) (Term, bool) {
	for _, i := range path {
		s := structOf(t)
		if s == nil {
			return Term{}, false
		}
		ft := s.Field(i).Type()
		if pt, ok := ft.Underlying().(*types.Pointer); ok {
			// embedded pointer: load it
			p := vc.term(vc.loadField(st, t, i, ref))
			ref, t = p, pt.Elem()
			continue
		}
		if structOf(ft) == nil {
			return Term{}, false
		}
		ref = vc.subRef(t, i, ref)
		t = ft
	}
	return ref, true
}

func (vc *VC) evalSelector(fr *frame, st *State, x *ast.SelectorExpr) Val {
	sel, ok := fr.ctx.info.Selections[x]
	if !ok {
		// qualified identifier
		return vc.evalIdent(fr, st, x.Sel)
	}
	switch sel.Kind() {
	case types.FieldVal:
		path := sel.Index()
		if ep, ok := vc.elemPtrOf(fr, st, x.X); ok && len(path) == 1 {
			f := structOf(ep.Elem).Field(path[0])
			return vc.loadElemPath(st, ep.Key+"."+f.Name(), f.Type(), MkSlice(ep.Base, ep.Idx, IntLit(1), IntLit(1)), IntLit(0))
		}
		if ref, t, ok := vc.selBase(fr, st, x.X); ok {
			r, ok2 := vc.walkRef(st, ref, t, path[:len(path)-1], x.Pos())
			if ok2 {
				owner := vc.ownerAt(t, path[:len(path)-1])
				return vc.loadField(st, owner, path[len(path)-1], r)
			}
		}
		// struct rvalue
		v := vc.evalExpr(fr, st, x.X)
		t := fr.typeOf(x.X)
		for _, i := range path {
			sv, ok := v.(*StructV)
			if !ok {
				vc.errorf(x.Pos(), "field selection on non-struct value")
				return vc.havocVal(fr.typeOf(x), "sel")
			}
			v = sv.F[i]
			t = structOf(t).Field(i).Type()
		}
		return v
	case types.MethodVal:
		recv := vc.evalRecv(fr, st, x, sel)
		fn := sel.Obj().(*types.Func)
		if fi, ok := vc.P.ByObj[fn]; ok {
			return &FuncV{Fn: fi, Recv: recv}
		}
		return &FuncV{Ext: fn, Recv: recv}
	}
	vc.errorf(x.Pos(), "unsupported selector kind")
	return vc.havocVal(fr.typeOf(x), "sel")
}

func (vc *VC) ownerAt(t types.Type, path []int) types.Type {
	for _, i := range path {
		ft := structOf(t).Field(i).Type()
		if pt, ok := ft.Underlying().(*types.Pointer); ok {
			ft = pt.Elem()
		}
		t = ft
	}
	return t
}

// evalRecv computes the receiver argument for a method selection.
func (vc *VC) evalRecv(fr *frame, st *State, x *ast.SelectorExpr, sel *types.Selection) Val {
	fn := sel.Obj().(*types.Func)
	sig := fn.Type().(*types.Signature)
	recvT := sig.Recv().Type()
	_, wantPtr := recvT.Underlying().(*types.Pointer)
	if _, isIface := sel.Recv().Underlying().(*types.Interface); isIface {
		return vc.evalExpr(fr, st, x.X)
	}
	path := sel.Index()
	path = path[:len(path)-1] // embedded path to the receiver
	baseT := fr.typeOf(x.X)
	if wantPtr {
		// a method of the pointer's own type called on a pointer value: the receiver is the pointer itself
		// (no dereference happens at the call; a nil receiver is checked against the callee's contract)
		if _, isPtr := baseT.Underlying().(*types.Pointer); isPtr && len(path) == 0 {
			return vc.evalExpr(fr, st, x.X)
		}
		// need ref of receiver object
		if ref, t, ok := vc.selBase(fr, st, x.X); ok {
			if r, ok := vc.walkRef(st, ref, t, path, x.Pos()); ok {
				return r
			}
		}
		vc.errorf(x.Pos(), "cannot take address of receiver")
		return vc.fresh("recv", SInt)
	}
	// value receiver
	if ref, t, ok := vc.selBase(fr, st, x.X); ok && (len(path) > 0 || structOf(recvT) != nil) {
		if r, ok := vc.walkRef(st, ref, t, path, x.Pos()); ok {
			if structOf(recvT) != nil {
				return vc.loadStruct(st, recvT, r)
			}
		}
	}
	v := vc.evalExpr(fr, st, x.X)
	if _, isPtr := baseT.Underlying().(*types.Pointer); isPtr && structOf(recvT) != nil {
		return vc.loadStruct(st, recvT, vc.term(v))
	}
	t := baseT
	for _, i := range path {
		sv, ok := v.(*StructV)
		if !ok {
			break
		}
		v = sv.F[i]
		t = structOf(t).Field(i).Type()
	}
	return v
}

// ---------------------------------------------------------------------------
// indexing and slicing

func (vc *VC) elemKey(elem types.Type) string { return "E:" + typeKey(elem) }

// rd is the read of slice s at index i in heap h, kept as an uninterpreted function with
// a definitional axiom so that quantified specifications have a clean trigger.
func (vc *VC) rd(key string, h, s, i Term) Term {
	inner := Sort(string(h.Sort)[len("(Array Int (Array Int ") : len(h.Sort)-2])
	fn := "rd!" + smtName(key)
	if !vc.declSet[fn] {
		vc.declFun(fn, []Sort{h.Sort, SSlice, SInt}, inner)
		hh, ss, ii := Term{"h?", h.Sort}, Term{"s?", SSlice}, Term{"i?", SInt}
		app := App(inner, fn, hh, ss, ii)
		vc.assumeGlobal(Forall([]Term{hh, ss, ii}, [][]Term{{app}}, Eq(app, Select(Select(hh, SBase(ss)), Add(SOff(ss), ii)))))
	}
	return App(inner, fn, h, s, i)
}

func (vc *VC) loadElem(st *State, elem types.Type, s, i Term) Val {
	return vc.loadElemPath(st, vc.elemKey(elem), elem, s, i)
}

func (vc *VC) loadElemPath(st *State, key string, t types.Type, s, i Term) Val {
	if st2 := structOf(t); st2 != nil {
		sv := &StructV{T: t, F: make([]Val, st2.NumFields())}
		for j := 0; j < st2.NumFields(); j++ {
			sv.F[j] = vc.loadElemPath(st, key+"."+st2.Field(j).Name(), st2.Field(j).Type(), s, i)
		}
		return sv
	}
	if key == "E:str" {
		return vc.rd(key, vc.strHeap(), s, i)
	}
	h := vc.heap(st, key, HeapSort(vc.sortOf(t)))
	if v, ok := vc.resolveRead(h, s, i); ok {
		return v
	}
	h = vc.skipFreshStores(h, s)
	return vc.rd(key, h, s, i)
}

func (vc *VC) storeElemPath(st *State, key string, t types.Type, base, idx Term, v Val, pos token.Pos) {
	if s := structOf(t); s != nil {
		sv := v.(*StructV)
		for i := 0; i < s.NumFields(); i++ {
			vc.storeElemPath(st, key+"."+s.Field(i).Name(), s.Field(i).Type(), base, idx, sv.F[i], pos)
		}
		return
	}
	h := vc.heap(st, key, HeapSort(vc.sortOf(t)))
	vc.frameCheckCells(st, key, base, idx, Add(idx, IntLit(1)), pos)
	vc.setHeap(st, key, Store(h, base, Store(Select(h, base), idx, vc.term(v))))
	vc.noteHeapDef(st, key, heapStore{prev: h, base: base, idx: idx, val: vc.term(v)})
}

func (vc *VC) noteHeapDef(st *State, key string, hs heapStore) {
	nh, ok := st.heaps[key]
	if !ok || strings.HasPrefix(nh.S, "(") {
		return
	}
	if vc.heapDef == nil {
		vc.heapDef = map[string]heapStore{}
	}
	vc.heapDef[nh.S] = hs
}

func (vc *VC) evalIndex(fr *frame, st *State, x *ast.IndexExpr) Val {
	xt := fr.typeOf(x.X)
	switch u := xt.Underlying().(type) {
	case *types.Slice:
		s := vc.term(vc.evalExpr(fr, st, x.X))
		i := vc.term(vc.evalExpr(fr, st, x.Index))
		vc.oblige(st, "safety", "index", x.Pos(), And(Le(IntLit(0), i), Lt(i, SLen(s))), "index out of range")
		return vc.loadElem(st, u.Elem(), s, i)
	case *types.Basic: // string
		s := vc.term(vc.evalExpr(fr, st, x.X))
		i := vc.term(vc.evalExpr(fr, st, x.Index))
		vc.oblige(st, "safety", "index", x.Pos(), And(Le(IntLit(0), i), Lt(i, SLen(s))), "string index out of range")
		return vc.rd("E:str", vc.strHeap(), s, i)
	case *types.Array:
		a := vc.term(vc.evalExpr(fr, st, x.X))
		i := vc.term(vc.evalExpr(fr, st, x.Index))
		vc.oblige(st, "safety", "index", x.Pos(), And(Le(IntLit(0), i), Lt(i, IntLit(u.Len()))), "array index out of range")
		if a.Sort == SBox {
			return vc.loadElem(st, u.Elem(), MkSlice(Term{a.S, SInt}, IntLit(0), IntLit(u.Len()), IntLit(u.Len())), i)
		}
		return Select(a, i)
	case *types.Pointer:
		if arr, ok := u.Elem().Underlying().(*types.Array); ok {
			_ = arr
		}
	case *types.Map:
		m := vc.term(vc.evalExpr(fr, st, x.X))
		k := vc.evalExpr(fr, st, x.Index)
		return vc.mapLookup(st, u, m, k)
	}
	vc.errorf(x.Pos(), "unsupported index expression on %s", xt)
	return vc.havocVal(fr.typeOf(x), "idx")
}

// mapLookup models read-only maps as uninterpreted finite functions.
func (vc *VC) mapLookup(st *State, mt *types.Map, m Term, k Val) Val {
	ks := vc.sortOf(mt.Key())
	vs := vc.sortOf(mt.Elem())
	fn := "maplookup!" + smtName(typeKey(mt.Key())+"_"+typeKey(mt.Elem()))
	fnok := fn + "!ok"
	vc.declFun(fn, []Sort{SInt, ks}, vs)
	vc.declFun(fnok, []Sort{SInt, ks}, SBool)
	kt := vc.term(k)
	ok := App(SBool, fnok, m, kt)
	v := Ite(ok, App(vs, fn, m, kt), vc.zeroOfSort(vs))
	return TupleV{v, ok}
}

func (vc *VC) evalSliceExpr(fr *frame, st *State, x *ast.SliceExpr) Val {
	xt := fr.typeOf(x.X)
	var s Term
	switch u := xt.Underlying().(type) {
	case *types.Slice, *types.Basic:
		s = vc.term(vc.evalExpr(fr, st, x.X))
	case *types.Pointer:
		_ = u
		vc.errorf(x.Pos(), "slicing pointer to array unsupported")
		return vc.havocVal(fr.typeOf(x), "slice")
	case *types.Array:
		base, ok := vc.boxArray(fr, st, x.X, u)
		if !ok {
			// an array that is a field of a heap object: the slice is modelled as a snapshot copy of the
			// array, which is faithful only when neither alias is written afterwards - checked syntactically
			if _, isSel := x.X.(*ast.SelectorExpr); isSel && structOf(u.Elem()) == nil && !vc.writesAfter(fr, x.End()) {
				if av, isT := vc.evalExpr(fr, st, x.X).(Term); isT {
					base = vc.allocRef(st, "arrsnap")
					key := vc.elemKey(u.Elem())
					h := vc.heap(st, key, HeapSort(vc.sortOf(u.Elem())))
					saved := vc.checkFrm
					vc.checkFrm = false
					vc.setHeap(st, key, Store(h, base, av))
					vc.checkFrm = saved
					ok = true
				}
			}
		}
		if !ok {
			vc.errorf(x.Pos(), "slicing of this array expression is unsupported")
			return vc.havocVal(fr.typeOf(x), "slice")
		}
		s = MkSlice(base, IntLit(0), IntLit(u.Len()), IntLit(u.Len()))
		xt = types.NewSlice(u.Elem())
	default:
		vc.errorf(x.Pos(), "slicing %s unsupported", xt)
		return vc.havocVal(fr.typeOf(x), "slice")
	}
	lo := IntLit(0)
	if x.Low != nil {
		lo = vc.term(vc.evalExpr(fr, st, x.Low))
	}
	isStr := isString(xt)
	var hi Term
	if x.High != nil {
		hi = vc.term(vc.evalExpr(fr, st, x.High))
	} else {
		hi = SLen(s)
	}
	capT := SCap(s)
	if isStr {
		capT = SLen(s)
	}
	mx := capT
	if x.Max != nil {
		mx = vc.term(vc.evalExpr(fr, st, x.Max))
		vc.oblige(st, "safety", "slice", x.Pos(), And(Le(hi, mx), Le(mx, capT)), "slice max out of range")
	}
	vc.oblige(st, "safety", "slice", x.Pos(), And(Le(IntLit(0), lo), Le(lo, hi), Le(hi, mx)), "slice bounds out of range")
	if fr.withinLen() && !isStr {
		vc.oblige(st, "within-len", "", x.Pos(), Le(hi, SLen(s)), "slice extends beyond len into spare capacity")
	}
	if isStr {
		out := vc.define("s", MkSlice(SBase(s), Add(SOff(s), lo), Sub(hi, lo), Sub(hi, lo)))
		vc.linkSlices("E:str", HeapSort(SInt), Term{}, Term{}, out, s, lo)
		return out
	}
	out := vc.define("s", MkSlice(SBase(s), Add(SOff(s), lo), Sub(hi, lo), Sub(mx, lo)))
	if sl, ok := xt.Underlying().(*types.Slice); ok {
		for _, lf := range vc.leaves(vc.elemKey(sl.Elem()), sl.Elem()) {
			vc.linkSlices(lf.key, HeapSort(lf.sort), Term{}, Term{}, out, s, lo)
		}
	}
	return out
}

func (fr *frame) withinLen() bool {
	return fr.contract != nil && fr.contract.WithinLen
}

// ---------------------------------------------------------------------------
// unary / binary

func (vc *VC) evalUnary(fr *frame, st *State, x *ast.UnaryExpr) Val {
	switch x.Op {
	case token.AND:
		if cl, ok := x.X.(*ast.CompositeLit); ok {
			return vc.evalComposite(fr, st, cl, true)
		}
		if ix, ok := x.X.(*ast.IndexExpr); ok {
			if sl, ok := fr.typeOf(ix.X).Underlying().(*types.Slice); ok && structOf(sl.Elem()) != nil {
				s := vc.term(vc.evalExpr(fr, st, ix.X))
				i := vc.term(vc.evalExpr(fr, st, ix.Index))
				vc.oblige(st, "safety", "index", ix.Pos(), And(Le(IntLit(0), i), Lt(i, SLen(s))), "index out of range")
				return &ElemPtr{Elem: sl.Elem(), Key: vc.elemKey(sl.Elem()), Base: SBase(s), Idx: vc.define("ix", Add(SOff(s), i))}
			}
		}
		if ref, ok := vc.evalAddr(fr, st, x.X); ok {
			return ref
		}
		vc.errorf(x.Pos(), "unsupported address-of expression")
		return vc.fresh("addr", SInt)
	case token.NOT:
		return Not(vc.term(vc.evalExpr(fr, st, x.X)))
	case token.SUB:
		v := vc.term(vc.evalExpr(fr, st, x.X))
		t := fr.typeOf(x)
		if isFloat(t) {
			return vc.floatUn("fneg", v)
		}
		return vc.wrapInt(App(SInt, "-", v), t)
	case token.ADD:
		return vc.evalExpr(fr, st, x.X)
	case token.XOR:
		v := vc.term(vc.evalExpr(fr, st, x.X))
		return vc.wrapInt(Sub(App(SInt, "-", v), IntLit(1)), fr.typeOf(x))
	}
	vc.errorf(x.Pos(), "unsupported unary operator %s", x.Op)
	return vc.havocVal(fr.typeOf(x), "un")
}

func (vc *VC) floatUn(op string, v Term) Term {
	if vc.Mode != "opaque" {
		switch op {
		case "fneg":
			return App(SReal, "-", v)
		}
	}
	vc.declFun(op, []Sort{SF64}, SF64)
	return App(SF64, op, v)
}

// degOf: how many input-derived factors a float term is a product of. Literals have degree 0, anything not
// built by the arithmetic tracked here (an ordinate read from memory, a call result) has degree 1, a sum or
// difference the larger degree of its operands, a product or quotient the sum. With ordinates that are zero or
// of magnitude within [1e-100, 1e100] a product of degree <= 2 of ordinates and their differences neither
// overflows nor underflows, which is what lets the real-number model stand for the float64 sign tests; a
// product of higher degree can underflow to zero inside that domain. `maxdegree N` on a contract makes every
// reachable float product of degree > N a failed obligation (range#product-degree).
func (vc *VC) degOf(t Term) int {
	if d, ok := vc.deg[t.S]; ok {
		return d
	}
	if _, err := strconv.ParseFloat(strings.Trim(t.S, "()- "), 64); err == nil {
		return 0
	}
	if strings.HasPrefix(t.S, "G!") {
		// package-level constant or variable (an epsilon, a scale): not an input-derived factor
		return 0
	}
	if strings.HasPrefix(t.S, "(- ") && !strings.Contains(t.S[3:], " ") {
		return vc.degOf(Term{t.S[3 : len(t.S)-1], t.Sort})
	}
	return 1
}

func (vc *VC) trackDegree(st *State, op token.Token, a, b, r Term, pos token.Pos) {
	if vc.Mode == "opaque" || vc.maxDeg == 0 {
		return
	}
	if vc.deg == nil {
		vc.deg = map[string]int{}
	}
	da, db := vc.degOf(a), vc.degOf(b)
	switch op {
	case token.ADD, token.SUB:
		if db > da {
			da = db
		}
		vc.deg[r.S] = da
	case token.MUL, token.QUO:
		vc.deg[r.S] = da + db
		if da+db > vc.maxDeg {
			vc.oblige(st, "range", "product-degree", pos, False, fmt.Sprintf("float product of %d input-derived factors (contract allows %d): it can underflow or overflow for ordinates within the stated range, where the real-number reading of the sign tests no longer holds", da+db, vc.maxDeg))
		}
	}
}

func (vc *VC) floatBin(op token.Token, a, b Term) Term {
	if vc.Mode != "opaque" {
		switch op {
		case token.ADD:
			return Add(a, b)
		case token.SUB:
			return Sub(a, b)
		case token.MUL:
			return Mul(a, b)
		case token.QUO:
			return App(SReal, "/", a, b)
		case token.EQL:
			return Eq(a, b)
		case token.NEQ:
			return Not(Eq(a, b))
		case token.LSS:
			return Lt(a, b)
		case token.LEQ:
			return Le(a, b)
		case token.GTR:
			return Gt(a, b)
		case token.GEQ:
			return Ge(a, b)
		}
	}
	name := map[token.Token]string{token.ADD: "fadd", token.SUB: "fsub", token.MUL: "fmul", token.QUO: "fdiv",
		token.EQL: "feq", token.NEQ: "feq", token.LSS: "flt", token.LEQ: "fle", token.GTR: "flt", token.GEQ: "fle"}[op]
	switch op {
	case token.ADD, token.SUB, token.MUL, token.QUO:
		vc.declFun(name, []Sort{SF64, SF64}, SF64)
		return App(SF64, name, a, b)
	case token.EQL:
		vc.declFun(name, []Sort{SF64, SF64}, SBool)
		return App(SBool, name, a, b)
	case token.NEQ:
		vc.declFun(name, []Sort{SF64, SF64}, SBool)
		return Not(App(SBool, name, a, b))
	case token.LSS, token.LEQ:
		vc.declFun(name, []Sort{SF64, SF64}, SBool)
		return App(SBool, name, a, b)
	case token.GTR, token.GEQ:
		vc.declFun(name, []Sort{SF64, SF64}, SBool)
		return App(SBool, name, b, a)
	}
	panic("floatBin " + op.String())
}

// wrapInt reduces an integer result into the range of fixed-width unsigned types.
func (vc *VC) wrapInt(v Term, t types.Type) Term {
	b, ok := t.Underlying().(*types.Basic)
	if !ok {
		return v
	}
	var bits int64
	switch b.Kind() {
	case types.Uint8:
		bits = 8
	case types.Uint16:
		bits = 16
	case types.Uint32:
		bits = 32
	case types.Uint64, types.Uint, types.Uintptr:
		bits = 64
	default:
		return v
	}
	m := new(big.Int).Lsh(big.NewInt(1), uint(bits))
	return App(SInt, "mod", v, BigIntLit(m))
}

func constOf(fr *frame, e ast.Expr) (*big.Int, bool) {
	tv, ok := fr.ctx.info.Types[e]
	if !ok || tv.Value == nil || tv.Value.Kind() != constant.Int {
		return nil, false
	}
	bi, ok := new(big.Int).SetString(tv.Value.ExactString(), 10)
	return bi, ok
}

// bitAndConst computes x & mask over mathematical integers (x >= 0) for a constant mask.
func bitAndConst(x Term, mask *big.Int) Term {
	if mask.Sign() == 0 {
		return IntLit(0)
	}
	var parts []Term
	n := mask.BitLen()
	i := 0
	for i < n {
		if mask.Bit(i) == 0 {
			i++
			continue
		}
		j := i
		for j < n && mask.Bit(j) == 1 {
			j++
		}
		lo := new(big.Int).Lsh(big.NewInt(1), uint(i))
		w := new(big.Int).Lsh(big.NewInt(1), uint(j-i))
		t := x
		if i > 0 {
			t = App(SInt, "div", t, BigIntLit(lo))
		}
		t = App(SInt, "mod", t, BigIntLit(w))
		if i > 0 {
			t = Mul(t, BigIntLit(lo))
		}
		parts = append(parts, t)
		i = j
	}
	if len(parts) == 1 {
		return parts[0]
	}
	return App(SInt, "+", parts...)
}

func (vc *VC) evalBinary(fr *frame, st *State, x *ast.BinaryExpr) Val {
	switch x.Op {
	case token.LAND, token.LOR:
		a := vc.term(vc.evalExpr(fr, st, x.X))
		// evaluate rhs under the guard
		guard := a
		if x.Op == token.LOR {
			guard = Not(a)
		}
		sub := st.clone()
		sub.pc = vc.newPC(st, guard)
		b := vc.term(vc.evalExpr(fr, sub, x.Y))
		vc.mergeEffects(st, sub, guard)
		if x.Op == token.LAND {
			return And(a, b)
		}
		return Or(a, b)
	}
	lt := fr.typeOf(x.X)
	rt := fr.typeOf(x.Y)
	l := vc.evalExpr(fr, st, x.X)
	r := vc.evalExpr(fr, st, x.Y)
	return vc.binop(st, x.Op, l, r, lt, rt, fr.typeOf(x), x, fr)
}

// mergeEffects folds heap/alloc changes of a guarded sub-evaluation back into st.
func (vc *VC) mergeEffects(st, sub *State, guard Term) {
	for k, h := range sub.heaps {
		old, ok := st.heaps[k]
		if !ok {
			old = vc.heaps0[k]
		}
		if old.S != h.S {
			vc.setHeap(st, k, Ite(guard, h, old))
		}
	}
	if sub.alloc.S != st.alloc.S {
		st.alloc = vc.define("alloc", Ite(guard, sub.alloc, st.alloc))
	}
}

func (vc *VC) binop(st *State, op token.Token, l, r Val, lt, rt, resT types.Type, x *ast.BinaryExpr, fr *frame) Val {
	pos := token.NoPos
	if x != nil {
		pos = x.Pos()
	}
	// comparisons on composite values
	if op == token.EQL || op == token.NEQ {
		eq := vc.valEq(l, r, lt, rt)
		if op == token.NEQ {
			return Not(eq)
		}
		return eq
	}
	a, b := vc.term(l), vc.term(r)
	opT := lt
	if opT == nil || (isUntyped(opT) && rt != nil) {
		opT = rt
	}
	if isFloat(opT) || (resT != nil && isFloat(resT) && op != token.LSS && op != token.LEQ && op != token.GTR && op != token.GEQ) {
		a, b = vc.toFloat(a), vc.toFloat(b)
		if op == token.QUO && vc.Mode != "opaque" {
			vc.oblige(st, "safety", "fdiv", pos, Not(Eq(b, Term{"0.0", SReal})), "floating-point division by zero (NaN/Inf source)")
		}
		r := vc.floatBin(op, a, b)
		vc.trackDegree(st, op, a, b, r, pos)
		return r
	}
	if isString(opT) {
		switch op {
		case token.ADD:
			return vc.strConcat(st, a, b)
		case token.LSS, token.LEQ, token.GTR, token.GEQ:
			vc.declFun("strlt", []Sort{SSlice, SSlice}, SBool)
			return App(SBool, "strlt", a, b)
		}
	}
	switch op {
	case token.ADD:
		return vc.wrapInt(Add(a, b), resT)
	case token.SUB:
		return vc.wrapInt(Sub(a, b), resT)
	case token.MUL:
		return vc.wrapInt(Mul(a, b), resT)
	case token.QUO, token.REM:
		vc.oblige(st, "safety", "div", pos, Not(Eq(b, IntLit(0))), "integer division by zero")
		return vc.intDivRem(st, op, a, b, x, fr)
	case token.LSS:
		return Lt(a, b)
	case token.LEQ:
		return Le(a, b)
	case token.GTR:
		return Gt(a, b)
	case token.GEQ:
		return Ge(a, b)
	case token.AND, token.OR, token.XOR, token.AND_NOT:
		var cm *big.Int
		var other Term
		if x != nil {
			if c, ok := constOf(fr, x.Y); ok {
				cm, other = c, a
			} else if c, ok := constOf(fr, x.X); ok && op != token.AND_NOT {
				cm, other = c, b
			}
		}
		if cm != nil && cm.Sign() >= 0 {
			and := bitAndConst(other, cm)
			switch op {
			case token.AND:
				return and
			case token.OR:
				return vc.wrapInt(Sub(Add(other, BigIntLit(cm)), and), resT)
			case token.AND_NOT:
				return Sub(other, and)
			case token.XOR:
				return Sub(Add(other, BigIntLit(cm)), Mul(IntLit(2), and))
			}
		}
		fn := map[token.Token]string{token.AND: "bitand", token.OR: "bitor", token.XOR: "bitxor", token.AND_NOT: "bitandnot"}[op]
		vc.declFun(fn, []Sort{SInt, SInt}, SInt)
		res := App(SInt, fn, a, b)
		return res
	case token.SHL, token.SHR:
		if x != nil {
			if c, ok := constOf(fr, x.Y); ok && c.IsInt64() && c.Int64() < 64 {
				p := new(big.Int).Lsh(big.NewInt(1), uint(c.Int64()))
				if op == token.SHL {
					return vc.wrapInt(Mul(a, BigIntLit(p)), resT)
				}
				return App(SInt, "div", a, BigIntLit(p))
			}
		}
		fn := "shl"
		if op == token.SHR {
			fn = "shr"
		}
		vc.declFun(fn, []Sort{SInt, SInt}, SInt)
		return App(SInt, fn, a, b)
	}
	vc.errorf(pos, "unsupported binary operator %s", op)
	return vc.havocVal(resT, "bin")
}

func isUntyped(t types.Type) bool {
	b, ok := t.(*types.Basic)
	return ok && b.Info()&types.IsUntyped != 0
}

func (vc *VC) toFloat(a Term) Term {
	if a.Sort == SInt {
		if vc.Mode == "opaque" {
			vc.declFun("i2f", []Sort{SInt}, SF64)
			return App(SF64, "i2f", a)
		}
		return App(SReal, "to_real", a)
	}
	return a
}

// intDivRem models Go's truncated division. Division by a constant uses SMT div/mod;
// division by a symbolic value introduces a quotient constrained by linear facts.
func (vc *VC) intDivRem(st *State, op token.Token, a, b Term, x *ast.BinaryExpr, fr *frame) Term {
	var bc *big.Int
	if x != nil {
		if c, ok := constOf(fr, x.Y); ok {
			bc = c
		}
	}
	nonneg := Ge(a, IntLit(0))
	if bc != nil && bc.Sign() > 0 {
		q := App(SInt, "div", a, b)
		m := App(SInt, "mod", a, b)
		// Go truncates toward zero
		negq := App(SInt, "-", App(SInt, "div", App(SInt, "-", a), b))
		negm := App(SInt, "-", App(SInt, "mod", App(SInt, "-", a), b))
		if op == token.QUO {
			return Ite(nonneg, q, negq)
		}
		return Ite(nonneg, m, negm)
	}
	// symbolic divisor: q*b + r == a, |r| < |b|, sign(r) == sign(a)
	q := vc.fresh("quo", SInt)
	r := vc.fresh("rem", SInt)
	absb := Ite(Ge(b, IntLit(0)), b, App(SInt, "-", b))
	vc.assume(st, Implies(Not(Eq(b, IntLit(0))), And(
		Eq(Add(Mul(q, b), r), a),
		Implies(nonneg, And(Le(IntLit(0), r), Lt(r, absb))),
		Implies(Not(nonneg), And(Lt(App(SInt, "-", absb), r), Le(r, IntLit(0)))),
	)))
	if op == token.QUO {
		return q
	}
	return r
}

func (vc *VC) strConcat(st *State, a, b Term) Term {
	// result is a fresh immutable string with the concatenated contents
	base := vc.fresh("strcat", SInt)
	n := Add(SLen(a), SLen(b))
	h := vc.strHeap()
	vc.assume(st, Gt(base, IntLit(0)))
	i := Term{"i?", SInt}
	cell := Select(Select(h, base), i)
	vc.assume(st, Forall([]Term{i}, [][]Term{{cell}}, And(
		Implies(And(Le(IntLit(0), i), Lt(i, SLen(a))), Eq(cell, Select(Select(h, SBase(a)), Add(SOff(a), i)))),
		Implies(And(Le(SLen(a), i), Lt(i, n)), Eq(cell, Select(Select(h, SBase(b)), Add(SOff(b), Sub(i, SLen(a)))))))))
	return vc.define("s", MkSlice(base, IntLit(0), n, n))
}

// valEq: Go == on values.
func (vc *VC) valEq(l, r Val, lt, rt types.Type) Term {
	t := lt
	if t == nil || isUntyped(t) {
		t = rt
	}
	if b, ok := t.(*types.Basic); ok && b.Kind() == types.UntypedNil {
		t = rt
		if b2, ok := rt.(*types.Basic); ok && b2.Kind() == types.UntypedNil {
			return True
		}
	}
	if lsv, ok := l.(*StructV); ok {
		rsv := r.(*StructV)
		s := structOf(lsv.T)
		var cs []Term
		for i := range lsv.F {
			cs = append(cs, vc.valEq(lsv.F[i], rsv.F[i], s.Field(i).Type(), s.Field(i).Type()))
		}
		return And(cs...)
	}
	a, b := vc.term(l), vc.term(r)
	switch u := t.Underlying().(type) {
	case *types.Basic:
		if u.Info()&types.IsFloat != 0 {
			return vc.floatBin(token.EQL, vc.toFloat(a), vc.toFloat(b))
		}
		if u.Info()&types.IsString != 0 {
			return vc.strEq(a, b)
		}
	case *types.Slice:
		// only comparison with nil is legal
		if a.S == NilSlice.S {
			return Eq(SBase(b), IntLit(0))
		}
		return Eq(SBase(a), IntLit(0))
	case *types.Interface:
		// comparing interface with nil, or with concrete value
		if a.Sort == SIface && b.Sort == SIface {
			if b.S == NilIface.S {
				return Eq(ITag(a), IntLit(0))
			}
			if a.S == NilIface.S {
				return Eq(ITag(b), IntLit(0))
			}
			return Eq(a, b)
		}
	}
	if a.Sort != b.Sort {
		// comparison of an interface with the nil literal
		if a.Sort == SIface && b.S == "0" {
			if bt, ok := rt.(*types.Basic); ok && bt.Kind() == types.UntypedNil {
				return Eq(ITag(a), IntLit(0))
			}
		}
		if b.Sort == SIface && a.S == "0" {
			if bt, ok := lt.(*types.Basic); ok && bt.Kind() == types.UntypedNil {
				return Eq(ITag(b), IntLit(0))
			}
		}
		// interface vs concrete
		if a.Sort == SIface {
			return Eq(a, vc.toIface(nil, b, rt))
		}
		if b.Sort == SIface {
			return Eq(vc.toIface(nil, a, lt), b)
		}
	}
	return Eq(a, b)
}

func (vc *VC) strEq(a, b Term) Term {
	vc.declFun("streq", []Sort{SSlice, SSlice}, SBool)
	if !vc.declSet["streq!ax"] {
		vc.declSet["streq!ax"] = true
		h := vc.strHeap()
		x, y, i := Term{"x?", SSlice}, Term{"y?", SSlice}, Term{"i?", SInt}
		e := App(SBool, "streq", x, y)
		vc.assumeGlobal(Forall([]Term{x, y}, [][]Term{{e}}, Implies(e, Eq(SLen(x), SLen(y)))))
		vc.assumeGlobal(Forall([]Term{x, y, i}, [][]Term{{e, Select(Select(h, SBase(x)), Add(SOff(x), i))}},
			Implies(And(e, Le(IntLit(0), i), Lt(i, SLen(x))), Eq(Select(Select(h, SBase(x)), Add(SOff(x), i)), Select(Select(h, SBase(y)), Add(SOff(y), i))))))
		vc.assumeGlobal(Forall([]Term{x}, [][]Term{{App(SBool, "streq", x, x)}}, App(SBool, "streq", x, x)))
		// zero-length strings are all equal
		vc.assumeGlobal(Forall([]Term{x, y}, [][]Term{{e}}, Implies(And(Eq(SLen(x), IntLit(0)), Eq(SLen(y), IntLit(0))), e)))
		// a one-byte difference decides inequality for literals: (len differs => not equal) is the contrapositive of the first axiom
	}
	if a.S == b.S {
		return True
	}
	return App(SBool, "streq", a, b)
}

// toIface boxes a concrete value of static type t into an interface value.
func (vc *VC) toIface(st *State, v Val, t types.Type) Term {
	if t == nil {
		return NilIface
	}
	if _, ok := t.Underlying().(*types.Interface); ok {
		return vc.term(v)
	}
	if b, ok := t.(*types.Basic); ok && b.Kind() == types.UntypedNil {
		return NilIface
	}
	tag := IntLit(int64(vc.P.TagOf(t)))
	switch x := v.(type) {
	case *StructV:
		if st == nil {
			return MkIface(tag, vc.fresh("box", SInt))
		}
		ref := vc.allocRef(st, "box")
		saved := vc.checkFrm
		vc.checkFrm = false
		vc.storeStruct(st, t, ref, x, token.NoPos)
		vc.checkFrm = saved
		return MkIface(tag, ref)
	case Term:
		switch x.Sort {
		case SInt:
			return MkIface(tag, x)
		default:
			// box other scalars through an uninterpreted injection
			fn := "box!" + smtName(string(x.Sort))
			vc.declFun(fn, []Sort{x.Sort}, SInt)
			un := "unbox!" + smtName(string(x.Sort))
			vc.declFun(un, []Sort{SInt}, x.Sort)
			bx := App(SInt, fn, x)
			vc.assumeGlobal(Eq(App(x.Sort, un, bx), x))
			return MkIface(tag, bx)
		}
	case *FuncV:
		return MkIface(tag, vc.fresh("fnbox", SInt))
	}
	return MkIface(tag, vc.fresh("box", SInt))
}

// fromIface unboxes interface payload to a value of concrete type t.
func (vc *VC) fromIface(st *State, iv Term, t types.Type) Val {
	if structOf(t) != nil {
		return vc.loadStruct(st, t, IVal(iv))
	}
	s := vc.sortOf(t)
	if s == SInt {
		return IVal(iv)
	}
	un := "unbox!" + smtName(string(s))
	fn := "box!" + smtName(string(s))
	vc.declFun(fn, []Sort{s}, SInt)
	vc.declFun(un, []Sort{SInt}, s)
	return App(s, un, IVal(iv))
}

func (vc *VC) evalTypeAssert(fr *frame, st *State, x *ast.TypeAssertExpr, commaOk bool) (Val, Term) {
	iv := vc.term(vc.evalExpr(fr, st, x.X))
	t := fr.typeOf(x.Type)
	if t == nil {
		vc.errorf(x.Pos(), "type assertion without type")
		return IntLit(0), False
	}
	ok := vc.hasDynType(iv, t)
	if !commaOk {
		vc.oblige(st, "safety", "typeassert", x.Pos(), ok, "type assertion may fail")
	}
	if _, isI := t.Underlying().(*types.Interface); isI {
		return Ite(ok, iv, NilIface), ok
	}
	v := vc.fromIface(st, iv, t)
	if tv, isT := v.(Term); isT && commaOk {
		return Ite(ok, tv, vc.zeroTerm(t)), ok
	}
	return v, ok
}

// hasDynType: the interface value iv has dynamic type t (or implements interface t).
func (vc *VC) hasDynType(iv Term, t types.Type) Term {
	if it, ok := t.Underlying().(*types.Interface); ok {
		if it.NumMethods() == 0 {
			return Not(Eq(ITag(iv), IntLit(0)))
		}
		var alts []Term
		for _, impl := range vc.P.Implementers(it) {
			alts = append(alts, Eq(ITag(iv), IntLit(int64(vc.P.TagOf(impl)))))
		}
		// unknown external implementers
		fn := "implements!" + smtName(types.TypeString(t, func(p *types.Package) string { return p.Name() }))
		vc.declFun(fn, []Sort{SInt}, SBool)
		alts = append(alts, And(Gt(ITag(iv), IntLit(1000)), App(SBool, fn, ITag(iv))))
		return Or(alts...)
	}
	return Eq(ITag(iv), IntLit(int64(vc.P.TagOf(t))))
}

// ---------------------------------------------------------------------------
// composite literals

func (vc *VC) evalComposite(fr *frame, st *State, x *ast.CompositeLit, addr bool) Val {
	t := fr.typeOf(x)
	if t == nil {
		vc.errorf(x.Pos(), "composite literal without type")
		return IntLit(0)
	}
	if pt, ok := t.Underlying().(*types.Pointer); ok {
		// elided &T in nested literal
		t = pt.Elem()
		addr = true
	}
	switch u := t.Underlying().(type) {
	case *types.Struct:
		sv := vc.zeroVal(t).(*StructV)
		for i, el := range x.Elts {
			if kv, ok := el.(*ast.KeyValueExpr); ok {
				name := kv.Key.(*ast.Ident).Name
				for j := 0; j < u.NumFields(); j++ {
					if u.Field(j).Name() == name {
						sv.F[j] = vc.convertAssign(fr, st, vc.evalExprT(fr, st, kv.Value, u.Field(j).Type()), fr.typeOf(kv.Value), u.Field(j).Type())
					}
				}
			} else {
				sv.F[i] = vc.convertAssign(fr, st, vc.evalExprT(fr, st, el, u.Field(i).Type()), fr.typeOf(el), u.Field(i).Type())
			}
		}
		if addr {
			ref := vc.allocRef(st, "new")
			saved := vc.checkFrm
			vc.checkFrm = false
			vc.storeStruct(st, t, ref, sv, x.Pos())
			vc.checkFrm = saved
			return ref
		}
		return sv
	case *types.Slice:
		n := int64(len(x.Elts))
		for _, el := range x.Elts {
			if _, ok := el.(*ast.KeyValueExpr); ok {
				vc.errorf(x.Pos(), "keyed slice literal unsupported")
			}
		}
		s := vc.makeSlice(st, u.Elem(), IntLit(n), IntLit(n), x.Pos())
		saved := vc.checkFrm
		vc.checkFrm = false
		for i, el := range x.Elts {
			v := vc.convertAssign(fr, st, vc.evalExprT(fr, st, el, u.Elem()), fr.typeOf(el), u.Elem())
			vc.storeElemPath(st, vc.elemKey(u.Elem()), u.Elem(), SBase(s), IntLit(int64(i)), v, x.Pos())
		}
		vc.checkFrm = saved
		return s
	case *types.Array:
		arr := vc.zeroTerm(t)
		for i, el := range x.Elts {
			if _, ok := el.(*ast.KeyValueExpr); ok {
				vc.errorf(x.Pos(), "keyed array literal unsupported")
				continue
			}
			arr = Store(arr, IntLit(int64(i)), vc.term(vc.evalExpr(fr, st, el)))
		}
		return arr
	case *types.Map:
		return vc.fresh("maplit", SInt)
	}
	vc.errorf(x.Pos(), "unsupported composite literal of type %s", t)
	return vc.havocVal(t, "lit")
}

// evalExprT evaluates e, giving untyped nil / composite elision the expected type.
func (vc *VC) evalExprT(fr *frame, st *State, e ast.Expr, want types.Type) Val {
	if id, ok := e.(*ast.Ident); ok && id.Name == "nil" {
		if _, isNil := fr.ctx.info.ObjectOf(id).(*types.Nil); isNil {
			return vc.zeroVal(want)
		}
	}
	return vc.evalExpr(fr, st, e)
}

// convertAssign converts value v of static type from to assignment target type to
// (boxing into interfaces).
func (vc *VC) convertAssign(fr *frame, st *State, v Val, from, to types.Type) Val {
	if to == nil || from == nil {
		return v
	}
	if _, toI := to.Underlying().(*types.Interface); toI {
		if _, fromI := from.Underlying().(*types.Interface); !fromI {
			if tv, ok := v.(Term); ok && tv.Sort == SIface {
				return v
			}
			return vc.toIface(st, v, from)
		}
	}
	if tv, ok := v.(Term); ok && tv.Sort == SInt && isFloat(to) {
		return vc.toFloat(tv)
	}
	return v
}

func (vc *VC) makeSlice(st *State, elem types.Type, n, c Term, pos token.Pos) Term {
	base := vc.allocRef(st, "arr")
	saved := vc.checkFrm
	vc.checkFrm = false
	for _, lf := range vc.leaves(vc.elemKey(elem), elem) {
		h := vc.heap(st, lf.key, HeapSort(lf.sort))
		vc.setHeap(st, lf.key, Store(h, base, vc.zeroOfSort(ArrSort(lf.sort))))
		vc.noteHeapDef(st, lf.key, heapStore{prev: h, base: base, fresh: true, zero: vc.zeroOfSort(lf.sort)})
	}
	vc.checkFrm = saved
	return vc.define("s", MkSlice(base, IntLit(0), n, c))
}

var _ = strings.HasPrefix

// boxArray moves a local fixed-size array variable into the heap the first time it is sliced, so
// that slices of it alias the variable. It returns the identity of the backing array.
func (vc *VC) boxArray(fr *frame, st *State, e ast.Expr, at *types.Array) (Term, bool) {
	for {
		if p, ok := e.(*ast.ParenExpr); ok {
			e = p.X
			continue
		}
		break
	}
	id, ok := e.(*ast.Ident)
	if !ok {
		return Term{}, false
	}
	o, ok := fr.ctx.info.ObjectOf(id).(*types.Var)
	if !ok || structOf(at.Elem()) != nil {
		return Term{}, false
	}
	cur, ok := st.vars[o].(Term)
	if !ok {
		return Term{}, false
	}
	if cur.Sort == SBox {
		return Term{cur.S, SInt}, true
	}
	base := vc.allocRef(st, "box!"+o.Name())
	key := vc.elemKey(at.Elem())
	h := vc.heap(st, key, HeapSort(vc.sortOf(at.Elem())))
	saved := vc.checkFrm
	vc.checkFrm = false
	vc.setHeap(st, key, Store(h, base, cur))
	vc.checkFrm = saved
	st.vars[o] = Term{base.S, SBox}
	return base, true
}

// elemPtrOf evaluates e when it is a call returning a pointer to a struct and the callee yields a pointer to
// a slice element (an *ElemPtr value), e.g. s.top() with top returning &s.data[len(s.data)-1].
func (vc *VC) elemPtrOf(fr *frame, st *State, e ast.Expr) (*ElemPtr, bool) {
	for {
		if p, ok := e.(*ast.ParenExpr); ok {
			e = p.X
			continue
		}
		break
	}
	if id, ok := e.(*ast.Ident); ok {
		// a local that holds such a pointer: top := s.top(); top.f = v
		if o, ok := fr.ctx.info.ObjectOf(id).(*types.Var); ok {
			if ep, ok := st.vars[o].(*ElemPtr); ok {
				return ep, true
			}
		}
		return nil, false
	}
	call, ok := e.(*ast.CallExpr)
	if !ok {
		return nil, false
	}
	t := fr.typeOf(call)
	if t == nil {
		return nil, false
	}
	pt, ok := t.Underlying().(*types.Pointer)
	if !ok || structOf(pt.Elem()) == nil {
		return nil, false
	}
	// only calls to module functions without a contract (inlined) can yield an element pointer
	var fobj types.Object
	switch f := call.Fun.(type) {
	case *ast.Ident:
		fobj = fr.ctx.info.ObjectOf(f)
	case *ast.SelectorExpr:
		fobj = fr.ctx.info.ObjectOf(f.Sel)
	}
	fo, ok := fobj.(*types.Func)
	if !ok {
		return nil, false
	}
	fi, ok := vc.P.ByObj[fo]
	if !ok || !vc.returnsElemPtr(fi) {
		return nil, false
	}
	v := vc.evalExpr(fr, st, call)
	ep, ok := v.(*ElemPtr)
	return ep, ok
}

// returnsElemPtr: the function body is `...; return &x.f[i]` (syntactic check on its last statement).
func (vc *VC) returnsElemPtr(fi *FuncInfo) bool {
	if fi.Decl.Body == nil || len(fi.Decl.Body.List) == 0 {
		return false
	}
	if ct := vc.P.Specs.Contracts[fi.Key]; ct != nil && !ct.Inline && (len(ct.Ensures) > 0 || len(ct.Requires) > 0 || ct.HasMod || ct.Trusted) {
		return false
	}
	ret, ok := fi.Decl.Body.List[len(fi.Decl.Body.List)-1].(*ast.ReturnStmt)
	if !ok || len(ret.Results) != 1 {
		return false
	}
	u, ok := ret.Results[0].(*ast.UnaryExpr)
	if !ok || u.Op != token.AND {
		return false
	}
	_, ok = u.X.(*ast.IndexExpr)
	return ok
}

// writesAfter reports whether the function being executed contains, after source position pos, a statement
// that could write through a slice or into an array: an assignment to an index expression, or a call of
// copy / append, or any call that is not a plain constructor-style call in a return statement.
func (vc *VC) writesAfter(fr *frame, pos token.Pos) bool {
	var body *ast.BlockStmt
	if fr.fn != nil && fr.fn.Decl != nil {
		body = fr.fn.Decl.Body
	}
	if body == nil {
		return true
	}
	found := false
	ast.Inspect(body, func(n ast.Node) bool {
		if n == nil || found {
			return false
		}
		if n.End() <= pos {
			return false
		}
		switch y := n.(type) {
		case *ast.AssignStmt:
			if y.Pos() > pos {
				for _, l := range y.Lhs {
					if _, ok := l.(*ast.IndexExpr); ok {
						found = true
					}
				}
			}
		case *ast.IncDecStmt:
			if y.Pos() > pos {
				if _, ok := y.X.(*ast.IndexExpr); ok {
					found = true
				}
			}
		case *ast.CallExpr:
			if y.Pos() > pos {
				if id, ok := y.Fun.(*ast.Ident); ok && (id.Name == "copy" || id.Name == "append") {
					found = true
				}
			}
		case *ast.ForStmt, *ast.RangeStmt:
			// a loop around the slice expression could come back to earlier writes
			if y.Pos() < pos && y.End() > pos {
				found = true
			}
		}
		return true
	})
	return found
}
