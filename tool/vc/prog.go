package vc

import (
	"fmt"
	"go/ast"
	"go/token"
	"go/types"
	"os"
	"path/filepath"
	"sort"
	"strings"

	"golang.org/x/tools/go/packages"
)

type FuncInfo struct {
	Key  string
	Decl *ast.FuncDecl
	Pkg  *packages.Package
	Obj  *types.Func
}

type Prog struct {
	Fset    *token.FileSet
	Pkgs    map[string]*packages.Package
	Funcs   map[string]*FuncInfo
	ByObj   map[*types.Func]*FuncInfo
	Specs   *SpecSet
	ModPath string
	RepoDir string
	// type tags for interface dynamic types
	tagOf   map[string]int
	tagType []types.Type
	// named types implementing interfaces (closed world)
	allNamed        []*types.Named
	globalsAssigned map[*types.Var]bool
	globalInit      map[*types.Var]ast.Expr // initialiser expressions of package-level variables
	effCache        map[string]*Effects
}

const ModulePath = "github.com/twpayne/go-geom"

func Load(repo string, specDir string) (*Prog, error) {
	cfg := &packages.Config{
		Mode:       packages.NeedName | packages.NeedFiles | packages.NeedCompiledGoFiles | packages.NeedImports | packages.NeedDeps | packages.NeedTypes | packages.NeedSyntax | packages.NeedTypesInfo | packages.NeedTypesSizes,
		Dir:        repo,
		BuildFlags: []string{"-tags=verif"},
		Env:        append(os.Environ(), "GOFLAGS=-mod=mod", "GOPROXY=off", "GOSUMDB=off", "GOTOOLCHAIN=local"),
	}
	pkgs, err := packages.Load(cfg, "./...")
	if err != nil {
		return nil, err
	}
	p := &Prog{Pkgs: map[string]*packages.Package{}, Funcs: map[string]*FuncInfo{}, ByObj: map[*types.Func]*FuncInfo{},
		Specs: NewSpecSet(), ModPath: ModulePath, RepoDir: repo, tagOf: map[string]int{}, tagType: []types.Type{nil},
		globalsAssigned: map[*types.Var]bool{}, effCache: map[string]*Effects{}, globalInit: map[*types.Var]ast.Expr{}}
	var errs []string
	for _, pk := range pkgs {
		if !strings.HasPrefix(pk.PkgPath, ModulePath) {
			continue
		}
		for _, e := range pk.Errors {
			errs = append(errs, e.Error())
		}
		p.Pkgs[pk.PkgPath] = pk
		p.Fset = pk.Fset
	}
	if len(errs) > 0 {
		return nil, fmt.Errorf("load errors: %s", strings.Join(errs, "; "))
	}
	paths := make([]string, 0, len(p.Pkgs))
	for k := range p.Pkgs {
		paths = append(paths, k)
	}
	sort.Strings(paths)
	for _, path := range paths {
		pk := p.Pkgs[path]
		for _, f := range pk.Syntax {
			fname := p.Fset.Position(f.Pos()).Filename
			if strings.HasSuffix(fname, "_test.go") {
				continue
			}
			for _, d := range f.Decls {
				if gd, ok := d.(*ast.GenDecl); ok && gd.Tok == token.VAR {
					for _, sp := range gd.Specs {
						vs, ok := sp.(*ast.ValueSpec)
						if !ok || len(vs.Values) != len(vs.Names) {
							continue
						}
						for i, nm := range vs.Names {
							if v, ok := pk.TypesInfo.Defs[nm].(*types.Var); ok {
								p.globalInit[v] = vs.Values[i]
							}
						}
					}
				}
				fd, ok := d.(*ast.FuncDecl)
				if !ok {
					continue
				}
				obj, _ := pk.TypesInfo.Defs[fd.Name].(*types.Func)
				if obj == nil {
					continue
				}
				fi := &FuncInfo{Key: FuncKey(obj), Decl: fd, Pkg: pk, Obj: obj}
				p.Funcs[fi.Key] = fi
				p.ByObj[obj] = fi
			}
			// contracts in comment-only files
			if strings.HasSuffix(fname, "_verif.go") {
				var lines, wheres []string
				for _, cg := range f.Comments {
					for _, c := range cg.List {
						if strings.HasPrefix(c.Text, "//@") {
							lines = append(lines, strings.TrimPrefix(c.Text, "//@"))
							pos := p.Fset.Position(c.Pos())
							wheres = append(wheres, fmt.Sprintf("%s:%d", filepath.Base(pos.Filename), pos.Line))
						}
					}
				}
				if err := p.Specs.ParseSpecText(lines, wheres, pk.PkgPath); err != nil {
					return nil, err
				}
			}
		}
		sc := pk.Types.Scope()
		for _, n := range sc.Names() {
			if tn, ok := sc.Lookup(n).(*types.TypeName); ok {
				if nm, ok := tn.Type().(*types.Named); ok {
					p.allNamed = append(p.allNamed, nm)
				}
			}
		}
	}
	// spec dir
	if specDir != "" {
		files, _ := filepath.Glob(filepath.Join(specDir, "*.spec"))
		sort.Strings(files)
		for _, fn := range files {
			data, err := os.ReadFile(fn)
			if err != nil {
				return nil, err
			}
			var lines, wheres []string
			for i, ln := range strings.Split(string(data), "\n") {
				lines = append(lines, ln)
				wheres = append(wheres, fmt.Sprintf("%s:%d", filepath.Base(fn), i+1))
			}
			if err := p.Specs.ParseSpecText(lines, wheres, ModulePath); err != nil {
				return nil, err
			}
		}
	}
	p.scanGlobalAssigns()
	return p, nil
}

// FuncKey gives pkgpath.Recv.Name
func FuncKey(f *types.Func) string {
	sig := f.Type().(*types.Signature)
	pkg := ""
	if f.Pkg() != nil {
		pkg = f.Pkg().Path()
	}
	if r := sig.Recv(); r != nil {
		t := r.Type()
		if pt, ok := t.(*types.Pointer); ok {
			t = pt.Elem()
		}
		if nm, ok := t.(*types.Named); ok {
			return pkg + "." + nm.Obj().Name() + "." + f.Name()
		}
		return pkg + ".?." + f.Name()
	}
	return pkg + "." + f.Name()
}

// ShortKey strips the module path prefix.
func ShortKey(k string) string {
	k = strings.TrimPrefix(k, ModulePath+"/")
	k = strings.TrimPrefix(k, ModulePath+".")
	if strings.HasPrefix(k, ModulePath) {
		k = "geom" + k[len(ModulePath):]
	}
	return k
}

func (p *Prog) scanGlobalAssigns() {
	for _, pk := range p.Pkgs {
		for _, f := range pk.Syntax {
			if strings.HasSuffix(p.Fset.Position(f.Pos()).Filename, "_test.go") {
				continue
			}
			ast.Inspect(f, func(n ast.Node) bool {
				mark := func(e ast.Expr) {
					for {
						switch x := e.(type) {
						case *ast.ParenExpr:
							e = x.X
							continue
						case *ast.IndexExpr:
							e = x.X
							continue
						case *ast.SelectorExpr:
							if _, ok := pk.TypesInfo.Selections[x]; ok {
								e = x.X
								continue
							}
							if v, ok := pk.TypesInfo.Uses[x.Sel].(*types.Var); ok && v.Parent() == v.Pkg().Scope() {
								p.globalsAssigned[v] = true
							}
							return
						case *ast.Ident:
							if v, ok := pk.TypesInfo.Uses[x].(*types.Var); ok && v.Pkg() != nil && v.Parent() == v.Pkg().Scope() {
								p.globalsAssigned[v] = true
							}
							return
						default:
							return
						}
					}
				}
				switch s := n.(type) {
				case *ast.AssignStmt:
					for _, l := range s.Lhs {
						mark(l)
					}
				case *ast.IncDecStmt:
					mark(s.X)
				case *ast.UnaryExpr:
					if s.Op == token.AND {
						mark(s.X)
					}
				}
				return true
			})
		}
	}
}

// TagOf returns the integer tag for a dynamic type.
func (p *Prog) TagOf(t types.Type) int {
	k := types.TypeString(t, nil)
	if n, ok := p.tagOf[k]; ok {
		return n
	}
	n := len(p.tagType)
	p.tagOf[k] = n
	p.tagType = append(p.tagType, t)
	return n
}

// Implementers lists module types (T or *T) that implement iface.
func (p *Prog) Implementers(iface *types.Interface) []types.Type {
	var out []types.Type
	for _, nm := range p.allNamed {
		if _, isI := nm.Underlying().(*types.Interface); isI {
			continue
		}
		if types.Implements(nm, iface) {
			out = append(out, nm)
		} else if pt := types.NewPointer(nm); types.Implements(pt, iface) {
			out = append(out, pt)
		}
	}
	return out
}
