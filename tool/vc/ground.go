package vc

import (
	"fmt"
	"strings"
)

// SMTGround renders a quantifier-free relaxation of the obligation: quantified hypotheses are
// dropped (sound: fewer assumptions), the definitional axioms of rd!* and sqrt are instantiated at
// every ground application that occurs, and leading universal quantifiers of the goal are
// replaced by fresh constants. Pure real-arithmetic goals then reach the solvers' complete
// nonlinear procedures.
func (o *Obligation) SMTGround(timeoutMs int, seed int, variant int) string {
	realsOnly := variant == 0
	keepReads := variant == 2
	opaqueDefs := variant == 3 // reads abstracted, non-recursive ghost definitions left uninterpreted
	vc := o.vc
	var b strings.Builder
	fmt.Fprintf(&b, "(set-option :timeout %d)\n(set-option :smt.random_seed %d)\n", timeoutMs, seed)
	fmt.Fprintf(&b, "; obligation %s (ground relaxation)\n", o.Name)
	b.WriteString(preambleCommon)
	for _, d := range vc.decls {
		b.WriteString(d)
		b.WriteByte('\n')
	}
	var kept []string
	for _, f := range vc.facts[:o.NFacts] {
		if strings.Contains(f, "(forall ") || strings.Contains(f, "(exists ") {
			continue
		}
		kept = append(kept, f)
	}
	goal := o.Goal.S
	// skolemize leading universals (also under a leading implication chain)
	var skDecl []string
	goal = skolemizeGoal(goal, &skDecl, 0)
	for _, d := range skDecl {
		b.WriteString(d)
		b.WriteByte('\n')
	}
	all := strings.Join(kept, "\n") + "\n" + goal + "\n" + o.PC.S
	// ground instances of the definitional axioms of ghost functions (g!f args) at the applications that occur
	defs := vc.defAxioms(o.NFacts)
	// non-recursive definitions are inlined, so that pure arithmetic goals stay free of uninterpreted functions
	inlineDefs := func(text string) string {
		for round := 0; round < 8; round++ {
			changed := false
			for _, d := range defs {
				if d.rhs == "" {
					continue
				}
				for _, app := range findApps(text, "("+d.head+" ") {
					args := splitTop(app[1 : len(app)-1])[1:]
					if len(args) != len(d.vars) {
						continue
					}
					rhs := d.rhs
					for i, v := range d.vars {
						rhs = replaceToken(rhs, v, args[i])
					}
					if strings.Contains(rhs, "(forall ") || strings.Contains(rhs, "(exists ") {
						continue
					}
					text = strings.ReplaceAll(text, app, rhs)
					changed = true
				}
			}
			if !changed {
				break
			}
		}
		return text
	}
	pcInl := o.PC.S
	if !keepReads && !opaqueDefs {
		goal = inlineDefs(goal)
		pcInl = inlineDefs(o.PC.S)
		for i := range kept {
			kept[i] = inlineDefs(kept[i])
		}
	}
	all = strings.Join(kept, "\n") + "\n" + goal + "\n" + pcInl
	seenDef := map[string]bool{}
	for round := 0; round < 3 && len(defs) > 0; round++ {
		var add []string
		for _, d := range defs {
			for _, app := range findApps(all, "("+d.head+" ") {
				if seenDef[app] {
					continue
				}
				seenDef[app] = true
				if opaqueDefs && d.rhs != "" {
					continue
				}
				args := splitTop(app[1 : len(app)-1])[1:]
				if len(args) != len(d.vars) {
					continue
				}
				body := d.body
				for i, v := range d.vars {
					body = replaceToken(body, v, args[i])
				}
				if strings.Contains(body, "(forall ") || strings.Contains(body, "(exists ") {
					continue
				}
				add = append(add, body)
			}
		}
		if len(add) == 0 {
			break
		}
		kept = append(kept, add...)
		all += "\n" + strings.Join(add, "\n")
	}
	// ground instances of rd! and sqrt definitions, to a fixpoint (rd terms may nest)
	seen := map[string]bool{}
	var inst []string
	for round := 0; round < 4; round++ {
		n := len(inst)
		for _, app := range findApps(all, "(rd!") {
			if seen[app] {
				continue
			}
			seen[app] = true
			parts := splitTop(app[1 : len(app)-1])
			if len(parts) != 4 {
				continue
			}
			h, s, i := parts[1], parts[2], parts[3]
			inst = append(inst, fmt.Sprintf("(= %s (select (select %s (s-base %s)) (+ (s-off %s) %s)))", app, h, s, s, i))
		}
		for _, app := range findApps(all, "(sqrt ") {
			if seen[app] {
				continue
			}
			seen[app] = true
			arg := strings.TrimSpace(app[len("(sqrt ") : len(app)-1])
			inst = append(inst, fmt.Sprintf("(=> (>= %s 0.0) (and (>= %s 0.0) (= (* %s %s) %s)))", arg, app, app, app, arg))
		}
		if len(inst) == n {
			break
		}
		all += "\n" + strings.Join(inst[n:], "\n")
	}
	// abstract ground applications of rd!*, select and sqrt by fresh constants (a relaxation: congruence is
	// only kept for syntactically identical applications), so that the query is pure arithmetic
	abs := map[string]string{}
	var absDecl []string
	rdSort := func(app string) string {
		head := app[1:strings.IndexByte(app, ' ')]
		for _, d := range vc.decls {
			if strings.HasPrefix(d, "(declare-fun "+head+" ") {
				return d[strings.LastIndexByte(d, ' ')+1 : len(d)-1]
			}
		}
		return ""
	}
	absPrefixes := []string{"(rd!", "(sqrt "}
	if opaqueDefs {
		// opaque (non-recursive) ghost functions become constants too: the goal is then pure arithmetic
		for _, d := range defs {
			if d.rhs != "" {
				absPrefixes = append(absPrefixes, "("+d.head+" ")
			}
		}
	}
	abstract := func(text string) string {
		for round := 0; round < 6; round++ {
			changed := false
			for _, prefix := range absPrefixes {
				for _, app := range findApps(text, prefix) {
					// innermost first: skip apps that still contain another abstractable app
					inner := app[1:]
					nested := false
					for _, p2 := range absPrefixes {
						if strings.Contains(inner, p2) {
							nested = true
						}
					}
					if nested {
						continue
					}
					name, ok := abs[app]
					if !ok {
						srt := "Real"
						if prefix != "(sqrt " {
							srt = rdSort(app)
						}
						if srt != "Real" && srt != "Int" && srt != "Bool" {
							continue
						}
						name = fmt.Sprintf("abs!%d", len(abs)+1)
						abs[app] = name
						absDecl = append(absDecl, fmt.Sprintf("(declare-const %s %s)", name, srt))
						if prefix == "(sqrt " {
							arg := strings.TrimSpace(app[len("(sqrt ") : len(app)-1])
							inst = append(inst, fmt.Sprintf("(=> (>= %s 0.0) (and (>= %s 0.0) (= (* %s %s) %s)))", arg, name, name, name, arg))
						}
					}
					text = strings.ReplaceAll(text, app, name)
					changed = true
				}
			}
			if !changed {
				break
			}
		}
		return text
	}
	if keepReads {
		abstract = func(text string) string { return text }
	} else {
		inst = nil
	}
	goal = abstract(goal)
	pcs := abstract(pcInl)
	for i := range kept {
		kept[i] = abstract(kept[i])
	}
	for i := 0; i < len(inst); i++ {
		inst[i] = abstract(inst[i])
	}
	cand := append(append([]string{}, kept...), inst...)
	if opaqueDefs {
		// minimal context: facts guarded by the obligation's own path condition (or a conjunct of it) are
		// taken unguarded, only facts sharing a symbol directly with the goal are kept, and the path
		// condition itself is not asserted (all sound: hypotheses are only dropped or implied)
		realsOnly = true
		implied := map[string]bool{pcs: true}
		for changed := true; changed; {
			changed = false
			for _, f := range cand {
				// (= pc!N (and A B ...)) with pc!N implied makes A, B, ... implied
				if !strings.HasPrefix(f, "(= pc!") {
					continue
				}
				parts := splitTop(f[3 : len(f)-1])
				if len(parts) != 2 || !implied[parts[0]] || !strings.HasPrefix(parts[1], "(and ") {
					continue
				}
				for _, cj := range splitTop(parts[1][5 : len(parts[1])-1]) {
					if !implied[cj] {
						implied[cj] = true
						changed = true
					}
				}
			}
		}
		goalSyms := map[string]bool{}
		for _, t := range symbolsOf(goal) {
			goalSyms[t] = true
		}
		var keep2 []string
		for _, f := range cand {
			if strings.HasPrefix(f, "(=> ") {
				parts := splitTop(f[4 : len(f)-1])
				if len(parts) == 2 && implied[parts[0]] {
					f = parts[1]
				}
			}
			hit := false
			for _, t := range symbolsOf(f) {
				if goalSyms[t] {
					hit = true
					break
				}
			}
			if hit {
				keep2 = append(keep2, f)
			}
		}
		cand = keep2
		pcs = "true"
	}
	// cone of influence over constant symbols
	rel := map[string]bool{}
	for _, t := range symbolsOf(goal + " " + pcs) {
		rel[t] = true
	}
	used := make([]bool, len(cand))
	for changed := true; changed; {
		changed = false
		for i, f := range cand {
			if used[i] {
				continue
			}
			syms := symbolsOf(f)
			hit := false
			for _, t := range syms {
				if rel[t] {
					hit = true
					break
				}
			}
			if hit {
				used[i] = true
				changed = true
				for _, t := range syms {
					rel[t] = true
				}
			}
		}
	}
	for _, d := range absDecl {
		b.WriteString(d + "\n")
	}
	for i, f := range cand {
		if !used[i] {
			continue
		}
		if realsOnly {
			skip := false
			for _, w := range []string{"(s-len", "(s-base", "(s-off", "(s-cap", "slice-ok", "alloc", "(select", "(store", "(i-tag", "(i-val", "mk-slice", "mk-iface"} {
				if strings.Contains(f, w) {
					skip = true
					break
				}
			}
			if skip {
				continue
			}
		}
		b.WriteString("(assert " + f + ")\n")
	}
	b.WriteString("(assert " + pcs + ")\n(assert (not " + goal + "))\n(check-sat)\n")
	return b.String()
}

// symbolsOf lists the declared-constant symbols (names containing '!') of an SMT term.
func symbolsOf(s string) []string {
	var out []string
	i := 0
	for i < len(s) {
		c := s[i]
		if c == '(' || c == ')' || c == ' ' || c == '\n' {
			i++
			continue
		}
		j := i
		for j < len(s) && s[j] != '(' && s[j] != ')' && s[j] != ' ' && s[j] != '\n' {
			j++
		}
		tok := s[i:j]
		if strings.Contains(tok, "!") && (i == 0 || s[i-1] != '(') {
			out = append(out, tok)
		}
		i = j
	}
	return out
}

var skCounter int

func skolemizeGoal(g string, decls *[]string, depth int) string {
	g = strings.TrimSpace(g)
	if depth > 6 {
		return g
	}
	if strings.HasPrefix(g, "(forall (") {
		parts := splitTop(g[8 : len(g)-1])
		if len(parts) == 2 {
			binders := splitTop(parts[0][1 : len(parts[0])-1])
			body := parts[1]
			if strings.HasPrefix(body, "(! ") {
				inner := splitTop(body[3 : len(body)-1])
				if len(inner) > 0 {
					body = inner[0]
				}
			}
			for _, bd := range binders {
				nv := splitTop(bd[1 : len(bd)-1])
				if len(nv) != 2 {
					return g
				}
				skCounter++
				name := fmt.Sprintf("sk!%d", skCounter)
				*decls = append(*decls, fmt.Sprintf("(declare-const %s %s)", name, nv[1]))
				body = replaceToken(body, nv[0], name)
			}
			return skolemizeGoal(body, decls, depth+1)
		}
	}
	if strings.HasPrefix(g, "(=> ") {
		parts := splitTop(g[4 : len(g)-1])
		if len(parts) == 2 {
			return "(=> " + parts[0] + " " + skolemizeGoal(parts[1], decls, depth+1) + ")"
		}
	}
	return g
}

// replaceToken replaces whole-token occurrences of name.
func replaceToken(s, name, with string) string {
	var b strings.Builder
	i := 0
	for i < len(s) {
		j := strings.Index(s[i:], name)
		if j < 0 {
			b.WriteString(s[i:])
			break
		}
		j += i
		end := j + len(name)
		okL := j == 0 || s[j-1] == ' ' || s[j-1] == '('
		okR := end == len(s) || s[end] == ' ' || s[end] == ')'
		b.WriteString(s[i:j])
		if okL && okR {
			b.WriteString(with)
		} else {
			b.WriteString(name)
		}
		i = end
	}
	return b.String()
}

// findApps returns the balanced applications starting with prefix (e.g. "(rd!").
func findApps(s, prefix string) []string {
	var out []string
	i := 0
	for {
		j := strings.Index(s[i:], prefix)
		if j < 0 {
			return out
		}
		j += i
		depth := 0
		k := j
		for ; k < len(s); k++ {
			if s[k] == '(' {
				depth++
			} else if s[k] == ')' {
				depth--
				if depth == 0 {
					break
				}
			}
		}
		if k < len(s) {
			app := s[j : k+1]
			if !strings.Contains(app, "?") {
				out = append(out, app)
			}
		}
		i = j + len(prefix)
	}
}

type defAxiom struct {
	head string
	vars []string
	body string
	rhs  string // non-recursive definition: the application can be replaced by rhs
}

// defAxioms extracts the keyed definitional axioms of the form
// (forall (binders) (! BODY :pattern ((g!f v1 ... vn)))) whose single trigger is the application of an
// uninterpreted ghost function to exactly the bound variables.
func (vc *VC) defAxioms(nfacts int) []defAxiom {
	var out []defAxiom
	for i := 0; i < nfacts && i < len(vc.facts); i++ {
		if _, keyed := vc.factKeys[i]; !keyed {
			continue
		}
		f := vc.facts[i]
		if !strings.HasPrefix(f, "(forall (") {
			continue
		}
		parts := splitTop(f[8 : len(f)-1])
		if len(parts) != 2 || !strings.HasPrefix(parts[1], "(! ") {
			continue
		}
		inner := splitTop(parts[1][3 : len(parts[1])-1])
		// inner = [BODY, :pattern, (pat), ...]
		if len(inner) != 3 || inner[1] != ":pattern" {
			continue
		}
		pats := splitTop(inner[2][1 : len(inner[2])-1])
		if len(pats) != 1 || !strings.HasPrefix(pats[0], "(g!") {
			continue
		}
		pp := splitTop(pats[0][1 : len(pats[0])-1])
		var vars []string
		isVar := map[string]bool{}
		for _, bd := range splitTop(parts[0][1 : len(parts[0])-1]) {
			nv := splitTop(bd[1 : len(bd)-1])
			if len(nv) == 2 {
				isVar[nv[0]] = true
			}
		}
		ok := len(pp)-1 == len(isVar)
		for _, a := range pp[1:] {
			if !isVar[a] {
				ok = false
			}
			vars = append(vars, a)
		}
		if !ok {
			continue
		}
		body := inner[0]
		// non-recursive definitions: drop the link to the lower fuel level (it only duplicates the body)
		if strings.HasPrefix(body, "(and ") {
			cj := splitTop(body[5 : len(body)-1])
			if len(cj) == 2 && strings.HasPrefix(cj[1], "(= "+pats[0]+" (") {
				lower := splitTop(cj[1][3 : len(cj[1])-1])
				if len(lower) == 2 {
					lh := splitTop(lower[1][1 : len(lower[1])-1])[0]
					if !strings.Contains(cj[0], "("+lh+" ") {
						body = cj[0]
					}
				}
			}
		}
		rhs := ""
		if pre := "(= " + pats[0] + " "; strings.HasPrefix(body, pre) && body != inner[0] {
			rhs = body[len(pre) : len(body)-1]
		}
		out = append(out, defAxiom{head: pp[0], vars: vars, body: body, rhs: rhs})
	}
	return out
}
