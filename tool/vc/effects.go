package vc

import (
	"fmt"
	"go/ast"
	"go/token"
	"go/types"
	"strings"
)

// Effects is a syntactic over-approximation of the heaps a piece of code may
// write or allocate in.
type Effects struct {
	Heaps   map[string]Sort
	Unknown bool // calls through function values we cannot resolve
}

func newEffects() *Effects { return &Effects{Heaps: map[string]Sort{}} }

func (e *Effects) add(o *Effects) {
	for k, s := range o.Heaps {
		e.Heaps[k] = s
	}
	if o.Unknown {
		e.Unknown = true
	}
}

func (vc *VC) addElemHeaps(e *Effects, elem types.Type) {
	for _, lf := range vc.leaves(vc.elemKey(elem), elem) {
		e.Heaps[lf.key] = HeapSort(lf.sort)
	}
}

func (vc *VC) addStructHeaps(e *Effects, t types.Type) {
	s := structOf(t)
	if s == nil {
		return
	}
	for i := 0; i < s.NumFields(); i++ {
		f := s.Field(i)
		if structOf(f.Type()) != nil {
			vc.addStructHeaps(e, f.Type())
			continue
		}
		e.Heaps[fieldHeapKey(t, f)] = ArrSort(vc.sortOf(f.Type()))
	}
}

func (vc *VC) effCache() map[string]*Effects {
	if vc.P.effCache == nil {
		vc.P.effCache = map[string]*Effects{}
	}
	return vc.P.effCache
}

func (vc *VC) effectsOfFunc(fi *FuncInfo) *Effects {
	key := vc.Mode + "|" + fi.Key
	if e, ok := vc.effCache()[key]; ok {
		return e
	}
	e := newEffects()
	vc.effCache()[key] = e // recursion guard: partial result
	if fi.Decl.Body != nil {
		ctx := &pkgCtx{info: fi.Pkg.TypesInfo, pkg: fi.Pkg.Types}
		e.add(vc.effectsOfNode(ctx, fi.Decl.Body))
	}
	return e
}

func (vc *VC) effectsOfNode(ctx *pkgCtx, n ast.Node) *Effects {
	e := newEffects()
	if n == nil {
		return e
	}
	lhs := func(x ast.Expr) {
		for {
			if p, ok := x.(*ast.ParenExpr); ok {
				x = p.X
				continue
			}
			break
		}
		switch l := x.(type) {
		case *ast.IndexExpr:
			t := ctx.info.TypeOf(l.X)
			if t == nil {
				return
			}
			if sl, ok := t.Underlying().(*types.Slice); ok {
				vc.addElemHeaps(e, sl.Elem())
			}
			if ar, ok := t.Underlying().(*types.Array); ok && structOf(ar.Elem()) == nil {
				vc.addElemHeaps(e, ar.Elem())
			}
		case *ast.SelectorExpr:
			if sel, ok := ctx.info.Selections[l]; ok && sel.Kind() == types.FieldVal {
				// owner of final field
				t := sel.Recv()
				if pt, ok := t.Underlying().(*types.Pointer); ok {
					t = pt.Elem()
				}
				path := sel.Index()
				owner := vc.ownerAt(t, path[:len(path)-1])
				f := structOf(owner).Field(path[len(path)-1])
				if structOf(f.Type()) != nil {
					vc.addStructHeaps(e, f.Type())
				} else {
					e.Heaps[fieldHeapKey(owner, f)] = ArrSort(vc.sortOf(f.Type()))
				}
			}
		case *ast.StarExpr:
			t := ctx.info.TypeOf(l)
			if t != nil {
				if structOf(t) != nil {
					vc.addStructHeaps(e, t)
				} else {
					e.Heaps["P:"+typeKey(t)] = ArrSort(vc.sortOf(t))
				}
			}
		case *ast.Ident:
			if o, ok := ctx.info.ObjectOf(l).(*types.Var); ok && structOf(o.Type()) != nil {
				vc.addStructHeaps(e, o.Type())
			}
		}
	}
	ast.Inspect(n, func(n ast.Node) bool {
		switch s := n.(type) {
		case *ast.AssignStmt:
			for _, l := range s.Lhs {
				lhs(l)
			}
		case *ast.IncDecStmt:
			lhs(s.X)
		case *ast.RangeStmt:
			if s.Tok == token.ASSIGN {
				if s.Key != nil {
					lhs(s.Key)
				}
				if s.Value != nil {
					lhs(s.Value)
				}
			}
		case *ast.DeclStmt:
			if gd, ok := s.Decl.(*ast.GenDecl); ok {
				for _, sp := range gd.Specs {
					if vs, ok := sp.(*ast.ValueSpec); ok {
						for _, nm := range vs.Names {
							if o, ok := ctx.info.Defs[nm].(*types.Var); ok && structOf(o.Type()) != nil {
								vc.addStructHeaps(e, o.Type())
							}
						}
					}
				}
			}
		case *ast.CompositeLit:
			t := ctx.info.TypeOf(s)
			if t != nil {
				if pt, ok := t.Underlying().(*types.Pointer); ok {
					t = pt.Elem()
				}
				switch u := t.Underlying().(type) {
				case *types.Slice:
					vc.addElemHeaps(e, u.Elem())
				case *types.Struct:
					vc.addStructHeaps(e, t)
				}
			}
		case *ast.SliceExpr:
			// slicing a local array moves it into the heap
			if t := ctx.info.TypeOf(s.X); t != nil {
				if ar, ok := t.Underlying().(*types.Array); ok && structOf(ar.Elem()) == nil {
					vc.addElemHeaps(e, ar.Elem())
				}
			}
		case *ast.CallExpr:
			vc.callEffects(ctx, s, e)
		}
		return true
	})
	return e
}

func (vc *VC) callEffects(ctx *pkgCtx, c *ast.CallExpr, e *Effects) {
	if tv, ok := ctx.info.Types[c.Fun]; ok && tv.IsType() {
		// conversion; string<->[]byte allocate
		if sl, ok := tv.Type.Underlying().(*types.Slice); ok {
			vc.addElemHeaps(e, sl.Elem())
		}
		return
	}
	var fobj types.Object
	switch f := c.Fun.(type) {
	case *ast.Ident:
		fobj = ctx.info.ObjectOf(f)
	case *ast.SelectorExpr:
		fobj = ctx.info.ObjectOf(f.Sel)
	case *ast.FuncLit:
		return // body is walked by Inspect
	case *ast.ParenExpr:
	}
	switch o := fobj.(type) {
	case *types.Builtin:
		switch o.Name() {
		case "append", "copy", "make":
			if len(c.Args) > 0 {
				t := ctx.info.TypeOf(c.Args[0])
				if t != nil {
					if sl, ok := t.Underlying().(*types.Slice); ok {
						vc.addElemHeaps(e, sl.Elem())
					}
				}
			}
		case "new":
			if len(c.Args) > 0 {
				t := ctx.info.TypeOf(c.Args[0])
				if t != nil && structOf(t) != nil {
					vc.addStructHeaps(e, t)
				}
			}
		}
		return
	case *types.Func:
		sig := o.Type().(*types.Signature)
		// boxed struct params / results allocate
		for i := 0; i < sig.Params().Len(); i++ {
			if structOf(sig.Params().At(i).Type()) != nil {
				vc.addStructHeaps(e, sig.Params().At(i).Type())
			}
		}
		if sig.Recv() != nil {
			if _, isI := sig.Recv().Type().Underlying().(*types.Interface); isI {
				// dynamic dispatch
				key := FuncKey(o)
				if ct, ok := vc.P.Specs.Contracts[key]; ok {
					e.add(vc.contractEffects(ct, o))
					return
				}
				it := sig.Recv().Type().Underlying().(*types.Interface)
				for _, impl := range vc.P.Implementers(it) {
					m, _, _ := types.LookupFieldOrMethod(impl, true, o.Pkg(), o.Name())
					if mf, ok := m.(*types.Func); ok {
						if fi, ok := vc.P.ByObj[mf]; ok {
							e.add(vc.effectsOfFunc(fi))
						}
					}
				}
				return
			}
			if structOf(sig.Recv().Type()) != nil {
				vc.addStructHeaps(e, sig.Recv().Type())
			}
		}
		if fi, ok := vc.P.ByObj[o]; ok {
			if ct, ok := vc.P.Specs.Contracts[fi.Key]; ok && ct.Trusted {
				e.add(vc.contractEffects(ct, o))
				return
			}
			e.add(vc.effectsOfFunc(fi))
			return
		}
		if ct, ok := vc.P.Specs.Contracts[FuncKey(o)]; ok {
			e.add(vc.contractEffects(ct, o))
			return
		}
		e.add(vc.builtinModelEffects(o))
		return
	case *types.Var:
		// call through a function value
		e.Unknown = true
	}
}

// contractEffects: heaps a contract says the function may change: its allocates clause plus the heaps of
// every location in its modifies clause (typed statically from the signature).
func (vc *VC) contractEffects(ct *Contract, fo *types.Func) *Effects {
	e := newEffects()
	for _, a := range ct.Allocates {
		e.Heaps[a] = vc.heapSort[a]
	}
	if fo == nil {
		return e
	}
	sig, _ := fo.Type().(*types.Signature)
	if sig == nil {
		return e
	}
	names := map[string]types.Type{}
	if r := sig.Recv(); r != nil {
		names[r.Name()] = r.Type()
		names["recv"] = r.Type()
	}
	for i := 0; i < sig.Params().Len(); i++ {
		p := sig.Params().At(i)
		names[p.Name()] = p.Type()
		names[fmt.Sprintf("arg%d", i+1)] = p.Type()
	}
	var typeOf func(x SExpr) types.Type
	typeOf = func(x SExpr) types.Type {
		switch v := x.(type) {
		case SIdent:
			return names[v.Name]
		case SField:
			t := typeOf(v.X)
			if t == nil {
				return nil
			}
			obj, _, _ := types.LookupFieldOrMethod(t, true, fo.Pkg(), v.Name)
			if f, ok := obj.(*types.Var); ok {
				return f.Type()
			}
			return nil
		case SSliceE:
			return typeOf(v.X)
		case SIndex:
			if t := typeOf(v.X); t != nil {
				if sl, ok := t.Underlying().(*types.Slice); ok {
					return sl.Elem()
				}
			}
			return nil
		case SCall:
			if (v.Fun == "spare" || v.Fun == "hdr" || v.Fun == "old") && len(v.Args) == 1 {
				return typeOf(v.Args[0])
			}
		}
		return nil
	}
	for _, cl := range ct.Modifies {
		x := cl.Expr
		if c, ok := x.(SCall); ok && c.Fun == "pointee" {
			for k, srt := range vc.heapSort {
				if strings.HasPrefix(k, "P:") || strings.HasPrefix(k, "F:") {
					e.Heaps[k] = srt
				}
			}
			continue
		}
		if u, ok := x.(SUn); ok && u.Op == "*" {
			if t := typeOf(u.X); t != nil {
				if pt, ok := t.Underlying().(*types.Pointer); ok {
					if structOf(pt.Elem()) != nil {
						vc.addStructHeaps(e, pt.Elem())
					} else {
						e.Heaps["P:"+typeKey(pt.Elem())] = ArrSort(vc.sortOf(pt.Elem()))
					}
				}
			}
			continue
		}
		if t := typeOf(x); t != nil {
			if sl, ok := t.Underlying().(*types.Slice); ok {
				vc.addElemHeaps(e, sl.Elem())
			}
		} else {
			e.Unknown = true
		}
	}
	return e
}

func (vc *VC) builtinModelEffects(o *types.Func) *Effects {
	e := newEffects()
	return e
}
