package vc

import (
	"go/ast"
	"go/token"
	"go/types"
)

// Effects is a syntactic over-approximation of the heaps a piece of code may
// write or allocate in.
type Effects struct {
	Heaps   map[string]Sort
	Unknown bool // calls through function values we cannot resolve
}

func newEffects() *Effects { return &Effects{Heaps: map[string]Sort{}} }

func (e *Effects) add(o *Effects) {
	for k, s := range o.Heaps {
		e.Heaps[k] = s
	}
	if o.Unknown {
		e.Unknown = true
	}
}

func (vc *VC) addElemHeaps(e *Effects, elem types.Type) {
	for _, lf := range vc.leaves(vc.elemKey(elem), elem) {
		e.Heaps[lf.key] = HeapSort(lf.sort)
	}
}

func (vc *VC) addStructHeaps(e *Effects, t types.Type) {
	s := structOf(t)
	if s == nil {
		return
	}
	for i := 0; i < s.NumFields(); i++ {
		f := s.Field(i)
		if structOf(f.Type()) != nil {
			vc.addStructHeaps(e, f.Type())
			continue
		}
		e.Heaps[fieldHeapKey(t, f)] = ArrSort(vc.sortOf(f.Type()))
	}
}

func (vc *VC) effCache() map[string]*Effects {
	if vc.P.effCache == nil {
		vc.P.effCache = map[string]*Effects{}
	}
	return vc.P.effCache
}

func (vc *VC) effectsOfFunc(fi *FuncInfo) *Effects {
	key := vc.Mode + "|" + fi.Key
	if e, ok := vc.effCache()[key]; ok {
		return e
	}
	e := newEffects()
	vc.effCache()[key] = e // recursion guard: partial result
	if fi.Decl.Body != nil {
		ctx := &pkgCtx{info: fi.Pkg.TypesInfo, pkg: fi.Pkg.Types}
		e.add(vc.effectsOfNode(ctx, fi.Decl.Body))
	}
	return e
}

func (vc *VC) effectsOfNode(ctx *pkgCtx, n ast.Node) *Effects {
	e := newEffects()
	if n == nil {
		return e
	}
	lhs := func(x ast.Expr) {
		for {
			if p, ok := x.(*ast.ParenExpr); ok {
				x = p.X
				continue
			}
			break
		}
		switch l := x.(type) {
		case *ast.IndexExpr:
			t := ctx.info.TypeOf(l.X)
			if t == nil {
				return
			}
			if sl, ok := t.Underlying().(*types.Slice); ok {
				vc.addElemHeaps(e, sl.Elem())
			}
			if ar, ok := t.Underlying().(*types.Array); ok && structOf(ar.Elem()) == nil {
				vc.addElemHeaps(e, ar.Elem())
			}
		case *ast.SelectorExpr:
			if sel, ok := ctx.info.Selections[l]; ok && sel.Kind() == types.FieldVal {
				// owner of final field
				t := sel.Recv()
				if pt, ok := t.Underlying().(*types.Pointer); ok {
					t = pt.Elem()
				}
				path := sel.Index()
				owner := vc.ownerAt(t, path[:len(path)-1])
				f := structOf(owner).Field(path[len(path)-1])
				if structOf(f.Type()) != nil {
					vc.addStructHeaps(e, f.Type())
				} else {
					e.Heaps[fieldHeapKey(owner, f)] = ArrSort(vc.sortOf(f.Type()))
				}
			}
		case *ast.StarExpr:
			t := ctx.info.TypeOf(l)
			if t != nil {
				if structOf(t) != nil {
					vc.addStructHeaps(e, t)
				} else {
					e.Heaps["P:"+typeKey(t)] = ArrSort(vc.sortOf(t))
				}
			}
		case *ast.Ident:
			if o, ok := ctx.info.ObjectOf(l).(*types.Var); ok && structOf(o.Type()) != nil {
				vc.addStructHeaps(e, o.Type())
			}
		}
	}
	ast.Inspect(n, func(n ast.Node) bool {
		switch s := n.(type) {
		case *ast.AssignStmt:
			for _, l := range s.Lhs {
				lhs(l)
			}
		case *ast.IncDecStmt:
			lhs(s.X)
		case *ast.RangeStmt:
			if s.Tok == token.ASSIGN {
				if s.Key != nil {
					lhs(s.Key)
				}
				if s.Value != nil {
					lhs(s.Value)
				}
			}
		case *ast.DeclStmt:
			if gd, ok := s.Decl.(*ast.GenDecl); ok {
				for _, sp := range gd.Specs {
					if vs, ok := sp.(*ast.ValueSpec); ok {
						for _, nm := range vs.Names {
							if o, ok := ctx.info.Defs[nm].(*types.Var); ok && structOf(o.Type()) != nil {
								vc.addStructHeaps(e, o.Type())
							}
						}
					}
				}
			}
		case *ast.CompositeLit:
			t := ctx.info.TypeOf(s)
			if t != nil {
				if pt, ok := t.Underlying().(*types.Pointer); ok {
					t = pt.Elem()
				}
				switch u := t.Underlying().(type) {
				case *types.Slice:
					vc.addElemHeaps(e, u.Elem())
				case *types.Struct:
					vc.addStructHeaps(e, t)
				}
			}
		case *ast.SliceExpr:
			// slicing a local array moves it into the heap
			if t := ctx.info.TypeOf(s.X); t != nil {
				if ar, ok := t.Underlying().(*types.Array); ok && structOf(ar.Elem()) == nil {
					vc.addElemHeaps(e, ar.Elem())
				}
			}
		case *ast.CallExpr:
			vc.callEffects(ctx, s, e)
		}
		return true
	})
	return e
}

func (vc *VC) callEffects(ctx *pkgCtx, c *ast.CallExpr, e *Effects) {
	if tv, ok := ctx.info.Types[c.Fun]; ok && tv.IsType() {
		// conversion; string<->[]byte allocate
		if sl, ok := tv.Type.Underlying().(*types.Slice); ok {
			vc.addElemHeaps(e, sl.Elem())
		}
		return
	}
	var fobj types.Object
	switch f := c.Fun.(type) {
	case *ast.Ident:
		fobj = ctx.info.ObjectOf(f)
	case *ast.SelectorExpr:
		fobj = ctx.info.ObjectOf(f.Sel)
	case *ast.FuncLit:
		return // body is walked by Inspect
	case *ast.ParenExpr:
	}
	switch o := fobj.(type) {
	case *types.Builtin:
		switch o.Name() {
		case "append", "copy", "make":
			if len(c.Args) > 0 {
				t := ctx.info.TypeOf(c.Args[0])
				if t != nil {
					if sl, ok := t.Underlying().(*types.Slice); ok {
						vc.addElemHeaps(e, sl.Elem())
					}
				}
			}
		case "new":
			if len(c.Args) > 0 {
				t := ctx.info.TypeOf(c.Args[0])
				if t != nil && structOf(t) != nil {
					vc.addStructHeaps(e, t)
				}
			}
		}
		return
	case *types.Func:
		sig := o.Type().(*types.Signature)
		// boxed struct params / results allocate
		for i := 0; i < sig.Params().Len(); i++ {
			if structOf(sig.Params().At(i).Type()) != nil {
				vc.addStructHeaps(e, sig.Params().At(i).Type())
			}
		}
		if sig.Recv() != nil {
			if _, isI := sig.Recv().Type().Underlying().(*types.Interface); isI {
				// dynamic dispatch
				key := FuncKey(o)
				if ct, ok := vc.P.Specs.Contracts[key]; ok {
					e.add(vc.contractEffects(ct, nil))
					return
				}
				it := sig.Recv().Type().Underlying().(*types.Interface)
				for _, impl := range vc.P.Implementers(it) {
					m, _, _ := types.LookupFieldOrMethod(impl, true, o.Pkg(), o.Name())
					if mf, ok := m.(*types.Func); ok {
						if fi, ok := vc.P.ByObj[mf]; ok {
							e.add(vc.effectsOfFunc(fi))
						}
					}
				}
				return
			}
			if structOf(sig.Recv().Type()) != nil {
				vc.addStructHeaps(e, sig.Recv().Type())
			}
		}
		if fi, ok := vc.P.ByObj[o]; ok {
			if ct, ok := vc.P.Specs.Contracts[fi.Key]; ok && ct.Trusted {
				e.add(vc.contractEffects(ct, fi))
				return
			}
			e.add(vc.effectsOfFunc(fi))
			return
		}
		if ct, ok := vc.P.Specs.Contracts[FuncKey(o)]; ok {
			e.add(vc.contractEffects(ct, nil))
			return
		}
		e.add(vc.builtinModelEffects(o))
		return
	case *types.Var:
		// call through a function value
		e.Unknown = true
	}
}

// contractEffects: heaps named by a trusted contract's allocates clause.
func (vc *VC) contractEffects(ct *Contract, fi *FuncInfo) *Effects {
	e := newEffects()
	for _, a := range ct.Allocates {
		e.Heaps[a] = vc.heapSort[a]
	}
	return e
}

func (vc *VC) builtinModelEffects(o *types.Func) *Effects {
	e := newEffects()
	return e
}
