package vc

import (
	"fmt"
	"go/token"
	"go/types"
	"strings"
)

// VerifyFunc generates all obligations for one function against its own contract.
func VerifyFunc(p *Prog, fi *FuncInfo, modeOverride string) (out *VC) {
	// a construct the executor has no case for must not take the whole check down: it is reported as
	// "outside the subset" for this function (the obligations generated so far are kept)
	defer func() {
		if r := recover(); r != nil {
			if out == nil {
				out = NewVC(p, ShortKey(fi.Key), "")
				out.Fn = fi
				out.UsedLemmas = map[string]bool{}
			}
			out.errorf(fi.Decl.Pos(), "unsupported: verifier has no case for a construct in this function (%v)", r)
		}
	}()
	out = verifyFunc(p, fi, modeOverride)
	return out
}

func verifyFunc(p *Prog, fi *FuncInfo, modeOverride string) *VC {
	ct := p.Specs.Contracts[fi.Key]
	mode := modeOverride
	if mode == "" && ct != nil {
		mode = ct.Floats
	}
	if mode == "ordered" {
		mode = "real"
	}
	vc := NewVC(p, ShortKey(fi.Key), mode)
	vc.Fn = fi
	vc.Contract = ct
	vc.UsedLemmas = map[string]bool{}
	if fi.Decl.Body == nil {
		vc.errorf(fi.Decl.Pos(), "function has no body")
		return vc
	}
	vc.alloc0 = vc.declConst("alloc0", SInt)
	vc.assumeGlobal(Gt(vc.alloc0, IntLit(1)))
	st := &State{pc: True, vars: map[*types.Var]Val{}, heaps: map[string]Term{}, alloc: vc.alloc0}
	fr := vc.newFrame(fi, ct)
	sig := fr.sig
	vc.stack = []string{fi.Key}
	vc.noSafety = ct != nil && ct.NoSafety
	vc.splitJoins = ct != nil && ct.NoMerge
	if ct != nil {
		vc.maxDeg = ct.MaxDegree
	}
	// parameters
	bindP := func(pv *types.Var) {
		if pv == nil || pv.Name() == "" || pv.Name() == "_" {
			return
		}
		v := vc.havocVal(pv.Type(), pv.Name())
		vc.assumeGlobal(vc.typeFacts(v, pv.Type(), vc.alloc0))
		if tv, ok := v.(Term); ok && tv.Sort == SSlice {
			if vc.oldVals == nil {
				vc.oldVals = map[string]bool{}
			}
			vc.oldVals[tv.S] = true
			if sl, ok := pv.Type().Underlying().(*types.Slice); ok && structOf(sl.Elem()) == nil {
				vc.paramSlices = append(vc.paramSlices, paramSlice{tv, vc.elemKey(sl.Elem())})
			}
		}
		if sv, ok := v.(*StructV); ok {
			// struct parameter: boxed local copy (allocated before alloc0 would make it look caller-visible; allocate fresh)
			ref := vc.allocRef(st, "param!"+pv.Name())
			saved := vc.checkFrm
			vc.checkFrm = false
			vc.storeStruct(st, pv.Type(), ref, sv, token.NoPos)
			vc.checkFrm = saved
			st.vars[pv] = ref
			return
		}
		st.vars[pv] = v
	}
	bindP(sig.Recv())
	if r := sig.Recv(); r != nil {
		if _, isPtr := r.Type().Underlying().(*types.Pointer); isPtr {
			if rv, ok := st.vars[r].(Term); ok && !(ct != nil && ct.NilRecv) {
				// implicit precondition: methods are verified for non-nil receivers (checked at contract call sites)
				vc.assumeGlobal(Not(Eq(rv, IntLit(0))))
			}
		}
	}
	for i := 0; i < sig.Params().Len(); i++ {
		bindP(sig.Params().At(i))
	}
	// pointers to unrelated struct types never alias (no unsafe in the verified code)
	{
		var ps []*types.Var
		if sig.Recv() != nil {
			ps = append(ps, sig.Recv())
		}
		for i := 0; i < sig.Params().Len(); i++ {
			ps = append(ps, sig.Params().At(i))
		}
		for i := 0; i < len(ps); i++ {
			for j := i + 1; j < len(ps); j++ {
				ti, oki := ps[i].Type().Underlying().(*types.Pointer)
				tj, okj := ps[j].Type().Underlying().(*types.Pointer)
				if !oki || !okj {
					continue
				}
				if types.Identical(ti.Elem(), tj.Elem()) || firstEmbeds(ti.Elem(), tj.Elem()) || firstEmbeds(tj.Elem(), ti.Elem()) {
					continue
				}
				a, aok := st.vars[ps[i]].(Term)
				b, bok := st.vars[ps[j]].(Term)
				if aok && bok {
					vc.assumeGlobal(Or(Not(Eq(a, b)), Eq(a, IntLit(0))))
				}
			}
		}
	}
	vc.bindResults(fr, st, sig)
	fr.snapshotEntry(vc, st)
	// requires
	if ct != nil {
		for _, rq := range ct.Requires {
			vc.assume(st, vc.evalClause(fr, st, nil, rq, nil))
		}
		vc.checkFrm = true
		vc.modLocs = vc.evalModifies(fr, st, ct.Modifies, nil)
		if ct.Trusted {
			vc.errorf(fi.Decl.Pos(), "function is marked trusted; body not verified")
			return vc
		}
	}
	if ct != nil {
		for _, ln := range ct.Lemmas {
			vc.assumeAutoLemma(ln)
		}
	}
	if !vc.noSafety {
		if o := vc.oblige(st, "canary", "entry", fi.Decl.Pos(), False, "precondition satisfiable"); o != nil {
			o.Canary = true
		}
	}
	entry := st.clone()
	vc.applyHints(fr, st, "entry")
	body := st.clone()
	end := vc.execBlock(fr, body, fi.Decl.Body.List)
	ends := []*State{end}
	if vc.splitJoins && len(vc.blockOuts) > 1 {
		// `nomerge`: each path that falls off the end of the body is its own return
		ends = vc.blockOuts
	}
	for _, end := range ends {
		if end == nil {
			continue
		}
		var vals []Val
		for _, rv := range fr.results {
			vals = append(vals, vc.readVar(fr, end, rv, fi.Decl.Body.Rbrace))
		}
		fr.returns = append(fr.returns, &retState{st: end, vals: vals})
	}
	// postconditions at every return
	if ct != nil {
		for ri, r := range fr.returns {
			names := map[string]binding{}
			for k, b := range fr.entry {
				names[k] = b
				names[strings.TrimSuffix(k, "0")] = b
			}
			res := sig.Results()
			for i := 0; i < res.Len() && i < len(r.vals); i++ {
				rv := res.At(i)
				b := binding{r.vals[i], rv.Type()}
				if rv.Name() != "" && rv.Name() != "_" {
					names[rv.Name()] = b
					names[rv.Name()+"_"] = b
				}
				names[fmt.Sprintf("res%d", i+1)] = b
				if res.Len() == 1 {
					names["res"] = b
				}
			}
			fr.specPos = token.NoPos
			vc.applyHintsEnv(fr, r.st, entry, "exit", names)
			for i, en := range ct.Ensures {
				lbl := en.Label
				if lbl == "" {
					lbl = fmt.Sprintf("%d", i+1)
				}
				if strings.HasPrefix(lbl, "assumed-") {
					// `ensures [assumed-...] P`: exported to callers, NOT proved against the body: an
					// assumption (listed with the trusted base of every check that uses the function)
					vc.Assumed = append(vc.Assumed, ShortKey(fi.Key)+": "+en.Text)
					if vc.Trusted != nil {
						vc.Trusted["assumed postcondition of "+ShortKey(fi.Key)+": "+en.Text] = true
					}
					continue
				}
				env := &specEnv{vc: vc, st: r.st, old: entry, names: names, pkg: fr.ctx.pkg, allocB: vc.alloc0}
				g := env.evalBool(en.Expr)
				for _, cj := range splitConj(g) {
					vc.oblige(r.st, "post", fmt.Sprintf("%s@ret%d", lbl, ri+1), fi.Decl.Pos(), cj, en.Text)
				}
			}
		}
		// a hint whose label is never reached proves and assumes nothing: report it instead of
		// silently dropping it (misspelt label, or a statement with no successor state)
		for label := range ct.At {
			if !vc.hintsSeen[label] && !strings.HasPrefix(label, "alloc-guard") {
				vc.errorf(fi.Decl.Pos(), "hint label %q is never reached", label)
			}
		}
	}
	return vc
}

func (vc *VC) applyHintsEnv(fr *frame, st, old *State, label string, names map[string]binding) {
	if fr.contract == nil {
		return
	}
	if fr.contract == vc.Contract && len(fr.contract.At[label]) > 0 {
		if vc.hintsSeen == nil {
			vc.hintsSeen = map[string]bool{}
		}
		vc.hintsSeen[label] = true
	}
	for _, h := range fr.contract.At[label] {
		env := &specEnv{vc: vc, st: st, old: old, names: names, pkg: fr.ctx.pkg, allocB: vc.alloc0}
		switch h.Kind {
		case "use":
			call, ok := h.Cl.Expr.(SCall)
			if !ok {
				continue
			}
			lm, ok := vc.P.Specs.Lemmas[call.Fun]
			if !ok {
				vc.errorf(token.NoPos, "use: unknown lemma %s", call.Fun)
				continue
			}
			vc.instLemma(env, st, lm, call.Args, "lemma-pre")
		case "apply":
			call, ok := h.Cl.Expr.(SCall)
			if !ok {
				continue
			}
			lm, ok := vc.P.Specs.Lemmas[call.Fun]
			if !ok {
				vc.errorf(token.NoPos, "apply: unknown lemma %s", call.Fun)
				continue
			}
			vc.instLemma(env, st, lm, call.Args, "apply")
		case "assert":
			g := env.evalBool(h.Cl.Expr)
			vc.oblige(st, "assert", label, token.NoPos, g, h.Cl.Text)
			vc.assume(st, g)
		}
	}
}

// splitConj splits a goal into independently provable conjuncts, distributing over
// universal quantifiers and implications: forall x. (G => A && B) becomes two goals.
func splitConj(t Term) []Term {
	s := t.S
	switch {
	case strings.HasPrefix(s, "(and "):
		parts := splitTop(s[5 : len(s)-1])
		var out []Term
		for _, p := range parts {
			out = append(out, splitConj(Term{p, SBool})...)
		}
		return out
	case strings.HasPrefix(s, "(=> "):
		parts := splitTop(s[4 : len(s)-1])
		if len(parts) == 2 {
			sub := splitConj(Term{parts[1], SBool})
			if len(sub) > 1 {
				var out []Term
				for _, c := range sub {
					out = append(out, Term{"(=> " + parts[0] + " " + c.S + ")", SBool})
				}
				return out
			}
		}
	case strings.HasPrefix(s, "(forall "):
		parts := splitTop(s[8 : len(s)-1])
		if len(parts) == 2 && !strings.HasPrefix(parts[1], "(! ") {
			sub := splitConj(Term{parts[1], SBool})
			if len(sub) > 1 {
				var out []Term
				for _, c := range sub {
					out = append(out, Term{"(forall " + parts[0] + " " + c.S + ")", SBool})
				}
				return out
			}
		}
		if len(parts) == 2 && strings.HasPrefix(parts[1], "(! ") {
			inner := splitTop(parts[1][3 : len(parts[1])-1])
			if len(inner) >= 1 {
				sub := splitConj(Term{inner[0], SBool})
				if len(sub) > 1 {
					var out []Term
					for _, c := range sub {
						// goals do not need patterns
						out = append(out, Term{"(forall " + parts[0] + " " + c.S + ")", SBool})
					}
					return out
				}
			}
		}
	}
	return []Term{t}
}

// VerifyLemma proves a lemma by validity (or induction on an integer parameter).
func VerifyLemma(p *Prog, lm *Lemma) *VC {
	mode := lm.Floats
	if mode == "" || mode == "ordered" {
		mode = "real"
	}
	vc := NewVC(p, "lemma."+lm.Name, mode)
	vc.UsedLemmas = map[string]bool{}
	vc.alloc0 = vc.declConst("alloc0", SInt)
	if lm.Trusted {
		vc.errorf(token.NoPos, "lemma %s is trusted (not proved)", lm.Name)
		return vc
	}
	st := &State{pc: True, vars: map[*types.Var]Val{}, heaps: map[string]Term{}, alloc: vc.alloc0}
	env := &specEnv{vc: vc, st: st, names: map[string]binding{}, pkg: vc.pkgByPath(lm.Pkg)}
	for _, prm := range lm.Params {
		t := env.resolveType(prm.Type)
		if t == nil {
			vc.errorf(token.NoPos, "lemma %s: unknown type %s", lm.Name, prm.Type)
			return vc
		}
		c := vc.declConst("p!"+prm.Name, vc.sortOf(t))
		env.names[prm.Name] = binding{c, t}
	}
	for _, ln := range lm.AutoUses {
		if ln == lm.Name {
			vc.errorf(token.NoPos, "lemma %s uses itself", lm.Name)
			continue
		}
		vc.assumeAutoLemma(ln)
	}
	prove := func(tag string, env *specEnv, hyp []Term) {
		for _, h := range hyp {
			vc.assume(st, h)
		}
		for _, rq := range lm.Requires {
			vc.assume(st, env.evalBool(rq.Expr))
		}
		if len(lm.Requires) > 0 && tag == "" {
			// vacuity guard: the hypotheses of a lemma must be satisfiable
			if o := vc.oblige(st, "canary", "requires", token.NoPos, False, "lemma hypotheses satisfiable"); o != nil {
				o.Canary = true
			}
		}
		for _, u := range lm.Uses {
			call, ok := u.Expr.(SCall)
			if !ok {
				continue
			}
			other, ok := vc.P.Specs.Lemmas[call.Fun]
			if !ok {
				vc.errorf(token.NoPos, "lemma %s uses unknown lemma %s", lm.Name, call.Fun)
				continue
			}
			if other.Name == lm.Name {
				vc.errorf(token.NoPos, "lemma %s uses itself", lm.Name)
				continue
			}
			vc.instLemma(env, st, other, call.Args, "lemma-pre")
		}
		for _, u := range lm.Applies {
			call, ok := u.Expr.(SCall)
			if !ok {
				continue
			}
			other, ok := vc.P.Specs.Lemmas[call.Fun]
			if !ok || other.Name == lm.Name {
				vc.errorf(token.NoPos, "lemma %s applies unknown lemma %s", lm.Name, call.Fun)
				continue
			}
			vc.instLemma(env, st, other, call.Args, "apply")
		}
		for i, en := range lm.Ensures {
			g := env.evalBool(en.Expr)
			for _, cj := range splitConj(g) {
				vc.oblige(st, "lemma", fmt.Sprintf("%s%d", tag, i+1), token.NoPos, cj, en.Text)
			}
		}
	}
	if lm.Induct == "" {
		prove("", env, nil)
		return vc
	}
	// induction on integer parameter k (k >= 0 assumed via requires): prove P(k) assuming P(k-1) when k > 0.
	kb, ok := env.names[lm.Induct]
	if !ok {
		vc.errorf(token.NoPos, "lemma %s: induction variable %s not a parameter", lm.Name, lm.Induct)
		return vc
	}
	k := kb.V.(Term)
	// hypothesis: requires(k-1) ==> ensures(k-1)
	henv := env.with(lm.Induct, binding{Sub(k, IntLit(1)), kb.T})
	var pre, post []Term
	for _, rq := range lm.Requires {
		pre = append(pre, henv.evalBool(rq.Expr))
	}
	for _, en := range lm.Ensures {
		post = append(post, henv.evalBool(en.Expr))
	}
	hyp := Implies(And(pre...), And(post...))
	prove("ind", env, []Term{hyp})
	return vc
}

// assumeAutoLemma adds a (separately proved) lemma as a universally quantified fact with its
// declared triggers.
func (vc *VC) assumeAutoLemma(name string) {
	lm, ok := vc.P.Specs.Lemmas[name]
	if !ok {
		vc.errorf(token.NoPos, "unknown lemma %s", name)
		return
	}
	if vc.UsedLemmas[name+"!auto"] {
		return
	}
	vc.UsedLemmas[name+"!auto"] = true
	vc.UsedLemmas[name] = true
	st := &State{pc: True, vars: map[*types.Var]Val{}, heaps: map[string]Term{}, alloc: Term{"alloc0", SInt}}
	env := &specEnv{vc: vc, st: st, names: map[string]binding{}, pkg: vc.pkgByPath(lm.Pkg)}
	var bvs []Term
	for _, prm := range lm.Params {
		t := env.resolveType(prm.Type)
		if t == nil {
			vc.errorf(token.NoPos, "lemma %s: unknown type %s", lm.Name, prm.Type)
			return
		}
		bv := Term{prm.Name + "?", vc.sortOf(t)}
		bvs = append(bvs, bv)
		env.names[prm.Name] = binding{bv, t}
	}
	var pre, post []Term
	for _, rq := range lm.Requires {
		pre = append(pre, env.evalBool(rq.Expr))
	}
	for _, en := range lm.Ensures {
		post = append(post, env.evalBool(en.Expr))
	}
	var pats [][]Term
	for _, tr := range lm.Triggers {
		var pat []Term
		for _, part := range splitTopComma(tr) {
			e, err := ParseSpecExpr(part)
			if err != nil {
				vc.errorf(token.NoPos, "lemma %s: bad trigger %q: %v", lm.Name, part, err)
				continue
			}
			t, _ := env.evalTerm(e)
			pat = append(pat, t)
		}
		pats = append(pats, pat)
	}
	if len(pats) == 0 {
		vc.errorf(token.NoPos, "lemma %s used automatically needs a trigger", lm.Name)
	}
	// relevant when any function symbol of its triggers is
	var keys []string
	for _, pat := range pats {
		for _, t := range pat {
			keys = append(keys, headSymbols(t.S)...)
		}
	}
	vc.assumeAxiom(Forall(bvs, pats, Implies(And(pre...), And(post...))), keys...)
}

// headSymbols lists the g!/sqrt function symbols occurring in an SMT term.
func headSymbols(s string) []string {
	var out []string
	for i := 0; i < len(s); i++ {
		if s[i] == '(' {
			j := i + 1
			for j < len(s) && s[j] != ' ' && s[j] != ')' && s[j] != '(' {
				j++
			}
			sym := s[i+1 : j]
			if strings.HasPrefix(sym, "g!") || sym == "sqrt" {
				out = append(out, sym)
			}
		}
	}
	return out
}

// firstEmbeds reports whether struct type outer contains inner at offset zero (transitively).
func firstEmbeds(outer, inner types.Type) bool {
	for {
		s := structOf(outer)
		if s == nil || s.NumFields() == 0 {
			return false
		}
		f := s.Field(0).Type()
		if types.Identical(f, inner) {
			return true
		}
		outer = f
	}
}
