package vc

// buildReplay is filled in per function shape in replay_gen.go; the default derives nothing.
func buildReplay(p *Prog, o *Obligation) (string, string, string) {
	return "", "", "replay generator does not cover this obligation kind; the model is attached"
}
