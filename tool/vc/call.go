package vc

import (
	"fmt"
	"go/ast"
	"go/token"
	"go/types"
	"math/big"
	"os"
	"strings"
)

func (vc *VC) evalCall(fr *frame, st *State, c *ast.CallExpr) Val {
	// conversion
	if tv, ok := fr.ctx.info.Types[c.Fun]; ok && tv.IsType() {
		return vc.evalConversion(fr, st, c, tv.Type)
	}
	// builtins
	var fid *ast.Ident
	switch f := c.Fun.(type) {
	case *ast.Ident:
		fid = f
	case *ast.ParenExpr:
		if id, ok := f.X.(*ast.Ident); ok {
			fid = id
		}
	}
	if fid != nil {
		if b, ok := fr.ctx.info.ObjectOf(fid).(*types.Builtin); ok {
			return vc.evalBuiltin(fr, st, c, b.Name())
		}
	}
	// immediately invoked function literal
	if lit, ok := c.Fun.(*ast.FuncLit); ok {
		return vc.inlineLit(fr, st, lit, nil, c.Pos())
	}
	fv, _ := vc.evalExpr(fr, st, c.Fun).(*FuncV)
	if fv == nil {
		// a call through a function value the verifier cannot resolve is only accepted where it is unreachable
		for _, a := range c.Args {
			vc.evalExpr(fr, st, a)
		}
		if !vc.noSafety {
			vc.oblige(st, "safety", "funcvalue", c.Pos(), False, "call through an unresolved function value must be unreachable")
		}
		st.pc = False
		return vc.havocVal(fr.typeOf(c), "call")
	}
	sig, _ := fr.typeOf(c.Fun).Underlying().(*types.Signature)
	args := vc.evalArgs(fr, st, c, sig)
	return vc.callFunc(fr, st, fv, args, c)
}

func (vc *VC) evalArgs(fr *frame, st *State, c *ast.CallExpr, sig *types.Signature) []Val {
	var args []Val
	if sig == nil {
		for _, a := range c.Args {
			args = append(args, vc.evalExpr(fr, st, a))
		}
		return args
	}
	np := sig.Params().Len()
	// f(g()) with multi-value g
	if len(c.Args) == 1 && np > 1 {
		if tv, ok := vc.evalExpr(fr, st, c.Args[0]).(TupleV); ok {
			return tv
		}
	}
	for i, a := range c.Args {
		var pt types.Type
		if sig.Variadic() && i >= np-1 {
			pt = sig.Params().At(np - 1).Type()
			if !c.Ellipsis.IsValid() {
				pt = pt.(*types.Slice).Elem()
			}
		} else if i < np {
			pt = sig.Params().At(i).Type()
		}
		v := vc.evalExprT(fr, st, a, pt)
		v = vc.convertAssign(fr, st, v, fr.typeOf(a), pt)
		args = append(args, v)
	}
	if sig.Variadic() && !c.Ellipsis.IsValid() {
		// pack extras
		elem := sig.Params().At(np - 1).Type().(*types.Slice).Elem()
		extra := args[np-1:]
		var s Term
		if len(extra) == 0 {
			s = NilSlice
		} else {
			n := IntLit(int64(len(extra)))
			s = vc.makeSlice(st, elem, n, n, c.Pos())
			saved := vc.checkFrm
			vc.checkFrm = false
			for i, v := range extra {
				vc.storeElemPath(st, vc.elemKey(elem), elem, SBase(s), IntLit(int64(i)), v, c.Pos())
			}
			vc.checkFrm = saved
		}
		args = append(args[:np-1:np-1], s)
	}
	return args
}

func (vc *VC) evalConversion(fr *frame, st *State, c *ast.CallExpr, to types.Type) Val {
	from := fr.typeOf(c.Args[0])
	v := vc.evalExprT(fr, st, c.Args[0], to)
	if from == nil {
		return v
	}
	switch tu := to.Underlying().(type) {
	case *types.Basic:
		switch {
		case tu.Info()&types.IsInteger != 0 && isInteger(from):
			t := vc.term(v)
			lo, hi := intRange(tu)
			if lo == nil {
				return t
			}
			flo, fhi := intRange(from.Underlying().(*types.Basic))
			if flo != nil && flo.Cmp(lo) >= 0 && fhi.Cmp(hi) <= 0 {
				return t
			}
			if lo.Sign() == 0 {
				return vc.wrapInt(t, to) // unsigned: modular
			}
			// signed narrowing wraps (two's complement); it never panics
			span := new(big.Int).Sub(hi, lo)
			span.Add(span, big.NewInt(1))
			return vc.define("narrow", Add(App(SInt, "mod", Sub(t, BigIntLit(lo)), BigIntLit(span)), BigIntLit(lo)))
		case tu.Info()&types.IsFloat != 0 && isInteger(from):
			return vc.toFloat(vc.term(v))
		case tu.Info()&types.IsFloat != 0 && isFloat(from):
			return v
		case tu.Info()&types.IsInteger != 0 && isFloat(from):
			t := vc.term(v)
			if vc.Mode == "opaque" {
				vc.declFun("f2i", []Sort{SF64}, SInt)
				r := App(SInt, "f2i", t)
				lo, hi := intRange(tu)
				if lo != nil {
					rr := vc.fresh("f2i", SInt)
					vc.assume(st, And(Le(BigIntLit(lo), rr), Le(rr, BigIntLit(hi))))
					return rr
				}
				return r
			}
			// truncation toward zero
			fl := App(SInt, "to_int", t)
			neg := App(SInt, "-", App(SInt, "to_int", App(SReal, "-", t)))
			return vc.define("trunc", Ite(Ge(t, Term{"0.0", SReal}), fl, neg))
		case tu.Info()&types.IsString != 0:
			if _, ok := from.Underlying().(*types.Slice); ok {
				// string(bytes): fresh immutable copy
				s := vc.term(v)
				return vc.bytesToString(st, s)
			}
			if isInteger(from) {
				// string(rune): some short string (contents not modelled)
				r := vc.fresh("runestr", SSlice)
				vc.assume(st, vc.typeFacts(r, types.Typ[types.String], st.alloc))
				return r
			}
			return v
		}
	case *types.Slice:
		if isString(from) {
			return vc.stringToBytes(st, vc.term(v))
		}
		return v
	case *types.Interface:
		return vc.convertAssign(fr, st, v, from, to)
	}
	return v
}

func (vc *VC) bytesToString(st *State, s Term) Term {
	base := vc.fresh("str", SInt)
	h := vc.strHeap()
	bh := vc.heap(st, "E:u8", HeapSort(SInt))
	vc.assume(st, Gt(base, IntLit(0)))
	i := Term{"i?", SInt}
	cell := Select(Select(h, base), i)
	vc.assume(st, Forall([]Term{i}, [][]Term{{cell}}, Implies(And(Le(IntLit(0), i), Lt(i, SLen(s))),
		Eq(cell, Select(Select(bh, SBase(s)), Add(SOff(s), i))))))
	return vc.define("s", MkSlice(base, IntLit(0), SLen(s), SLen(s)))
}

func (vc *VC) stringToBytes(st *State, s Term) Term {
	r := vc.makeSlice(st, types.Typ[types.Uint8], SLen(s), SLen(s), token.NoPos)
	bh := vc.heap(st, "E:u8", HeapSort(SInt))
	arr := vc.fresh("bytes", ArrSort(SInt))
	i := Term{"i?", SInt}
	vc.assume(st, Forall([]Term{i}, [][]Term{{Select(arr, i)}}, Implies(And(Le(IntLit(0), i), Lt(i, SLen(s))),
		Eq(Select(arr, i), Select(Select(vc.strHeap(), SBase(s)), Add(SOff(s), i))))))
	vc.setHeap(st, "E:u8", Store(bh, SBase(r), arr))
	return r
}

// ---------------------------------------------------------------------------
// builtins

func (vc *VC) evalBuiltin(fr *frame, st *State, c *ast.CallExpr, name string) Val {
	switch name {
	case "len", "cap":
		t := fr.typeOf(c.Args[0])
		v := vc.evalExpr(fr, st, c.Args[0])
		switch u := t.Underlying().(type) {
		case *types.Slice, *types.Basic:
			if name == "len" {
				return SLen(vc.term(v))
			}
			return SCap(vc.term(v))
		case *types.Array:
			return IntLit(u.Len())
		case *types.Map:
			vc.declFun("maplen", []Sort{SInt}, SInt)
			return App(SInt, "maplen", vc.term(v))
		}
		vc.errorf(c.Pos(), "len of %s unsupported", t)
		return vc.fresh("len", SInt)
	case "new":
		t := fr.typeOf(c.Args[0])
		ref := vc.allocRef(st, "new")
		saved := vc.checkFrm
		vc.checkFrm = false
		if structOf(t) != nil {
			vc.storeStruct(st, t, ref, vc.zeroVal(t).(*StructV), c.Pos())
		} else {
			key := "P:" + typeKey(t)
			h := vc.heap(st, key, ArrSort(vc.sortOf(t)))
			vc.setHeap(st, key, Store(h, ref, vc.zeroTerm(t)))
		}
		vc.checkFrm = saved
		return ref
	case "make":
		t := fr.typeOf(c.Args[0])
		switch u := t.Underlying().(type) {
		case *types.Slice:
			n := vc.term(vc.evalExpr(fr, st, c.Args[1]))
			cp := n
			if len(c.Args) > 2 {
				cp = vc.term(vc.evalExpr(fr, st, c.Args[2]))
				vc.oblige(st, "safety", "make", c.Pos(), Le(n, cp), "make: len larger than cap")
			}
			vc.oblige(st, "safety", "make", c.Pos(), Le(IntLit(0), n), "make: negative length")
			vc.allocGuard(fr, st, c, n)
			return vc.makeSlice(st, u.Elem(), n, cp, c.Pos())
		case *types.Map:
			return vc.allocRef(st, "map")
		}
		vc.errorf(c.Pos(), "make of %s unsupported", t)
		return vc.fresh("make", SInt)
	case "append":
		return vc.evalAppend(fr, st, c)
	case "copy":
		dt := fr.typeOf(c.Args[0])
		d := vc.term(vc.evalExpr(fr, st, c.Args[0]))
		s := vc.term(vc.evalExpr(fr, st, c.Args[1]))
		elem := dt.Underlying().(*types.Slice).Elem()
		srcIsStr := isString(fr.typeOf(c.Args[1]))
		n := vc.define("ncopy", Ite(Le(SLen(d), SLen(s)), SLen(d), SLen(s)))
		for _, lf := range vc.leaves(vc.elemKey(elem), elem) {
			h := vc.heap(st, lf.key, HeapSort(lf.sort))
			var src Term
			if srcIsStr {
				src = Select(vc.strHeap(), SBase(s))
			} else {
				src = Select(h, SBase(s))
			}
			arr := vc.fresh("cp", ArrSort(lf.sort))
			j := Term{"j?", SInt}
			in := And(Le(SOff(d), j), Lt(j, Add(SOff(d), n)))
			vc.assume(st, Forall([]Term{j}, [][]Term{{Select(arr, j)}}, And(
				Implies(in, Eq(Select(arr, j), Select(src, Add(SOff(s), Sub(j, SOff(d)))))),
				Implies(Not(in), Eq(Select(arr, j), Select(Select(h, SBase(d)), j))))))
			vc.frameCheckCells(st, lf.key, SBase(d), SOff(d), Add(SOff(d), n), c.Pos())
			vc.setHeap(st, lf.key, Store(h, SBase(d), arr))
		}
		return n
	case "panic":
		vc.evalExpr(fr, st, c.Args[0])
		vc.panicAt(fr, st, c.Pos(), "explicit panic")
		return TupleV{}
	case "min", "max":
		t := fr.typeOf(c)
		acc := vc.term(vc.evalExpr(fr, st, c.Args[0]))
		for _, a := range c.Args[1:] {
			b := vc.term(vc.evalExpr(fr, st, a))
			if isFloat(t) {
				acc = vc.mathMinMax(name == "min", vc.toFloat(acc), vc.toFloat(b))
			} else if name == "min" {
				acc = Ite(Le(acc, b), acc, b)
			} else {
				acc = Ite(Ge(acc, b), acc, b)
			}
		}
		return acc
	case "delete", "print", "println", "clear":
		vc.errorf(c.Pos(), "builtin %s is outside the supported subset", name)
		return TupleV{}
	}
	vc.errorf(c.Pos(), "unsupported builtin %s", name)
	return vc.havocVal(fr.typeOf(c), name)
}

// panicAt records that a panic is reachable at this point. It is an obligation that the
// point is unreachable unless the function contract declares `panics when`.
func (vc *VC) panicAt(fr *frame, st *State, pos token.Pos, what string) {
	goal := False
	if fr.contract != nil && len(fr.contract.PanicsWhen) > 0 && !fr.inlined {
		var alts []Term
		for _, cl := range fr.contract.PanicsWhen {
			// evaluated over entry values
			alts = append(alts, vc.evalClause(fr, vc.entryState(fr, st), nil, cl, fr.entry))
		}
		goal = Or(alts...)
	}
	if !vc.noSafety {
		vc.oblige(st, "panic-unreachable", "", pos, goal, what)
	}
	st.pc = False
}

func (vc *VC) entryState(fr *frame, st *State) *State {
	s := st.clone()
	for k := range s.heaps {
		delete(s.heaps, k)
	}
	return s
}

// allocGuard hook (C04): when a function contract carries `at alloc-guard: assert P`, P must hold
// at every make whose size is not a constant.
func (vc *VC) allocGuard(fr *frame, st *State, c *ast.CallExpr, n Term) {
	if fr.contract == nil {
		return
	}
	for _, a := range fr.contract.At["alloc-guard"] {
		if _, isConst := constOf(fr, c.Args[1]); isConst {
			return
		}
		g := vc.evalClause(fr, st, nil, a.Cl, map[string]binding{"n": {n, tInt}})
		vc.oblige(st, "alloc-guard", "", c.Pos(), g, a.Cl.Text)
	}
}

func (vc *VC) evalAppend(fr *frame, st *State, c *ast.CallExpr) Val {
	st0 := fr.typeOf(c.Args[0])
	elem := st0.Underlying().(*types.Slice).Elem()
	s := vc.term(vc.evalExpr(fr, st, c.Args[0]))
	if len(c.Args) == 1 {
		return s
	}
	leaves := vc.leaves(vc.elemKey(elem), elem)
	if c.Ellipsis.IsValid() {
		// append(s, xs...)
		xt := fr.typeOf(c.Args[1])
		xs := vc.term(vc.evalExpr(fr, st, c.Args[1]))
		n := SLen(xs)
		return vc.appendN(st, s, leaves, n, func(lf leaf, h Term, k Term) Term {
			// k-th appended element
			if isString(xt) {
				return Select(Select(vc.strHeap(), SBase(xs)), Add(SOff(xs), k))
			}
			return Select(Select(h, SBase(xs)), Add(SOff(xs), k))
		}, c.Pos())
	}
	// append(s, e1, ..., en)
	var vals []Val
	for _, a := range c.Args[1:] {
		v := vc.evalExprT(fr, st, a, elem)
		vals = append(vals, vc.convertAssign(fr, st, v, fr.typeOf(a), elem))
	}
	n := IntLit(int64(len(vals)))
	return vc.appendN(st, s, leaves, n, func(lf leaf, h Term, k Term) Term {
		// select the k-th value's leaf
		var out Term
		for i := len(vals) - 1; i >= 0; i-- {
			lv := leafOf(vals[i], lf.path)
			if i == len(vals)-1 {
				out = lv
			} else {
				out = Ite(Eq(k, IntLit(int64(i))), lv, out)
			}
		}
		return out
	}, c.Pos())
}

func leafOf(v Val, path []int) Term {
	for _, i := range path {
		v = v.(*StructV).F[i]
	}
	return v.(Term)
}

// appendN models append of n elements: in place iff len+n <= cap, else a fresh array.
func (vc *VC) appendN(st *State, s Term, leaves []leaf, n Term, elemAt func(lf leaf, h Term, k Term) Term, pos token.Pos) Term {
	s = vc.define("aps", s)
	newLen := vc.define("aplen", Add(SLen(s), n))
	inplace := vc.define("apin", Le(newLen, SCap(s)))
	// fresh array for the reallocating case (allocated unconditionally in the model; unused if in place)
	nb := vc.allocRef(st, "aparr")
	ncap := vc.fresh("apcap", SInt)
	vc.assume(st, Ge(ncap, newLen))
	oldHeaps := make([]Term, len(leaves))
	for li, lf := range leaves {
		h := vc.heap(st, lf.key, HeapSort(lf.sort))
		oldHeaps[li] = h
		// in place: cells [off+len, off+len+n) of base(s) overwritten
		a1 := vc.fresh("ap1", ArrSort(lf.sort))
		j := Term{"j?", SInt}
		start := Add(SOff(s), SLen(s))
		in := And(Le(start, j), Lt(j, Add(start, n)))
		vc.assume(st, Forall([]Term{j}, [][]Term{{Select(a1, j)}}, And(
			Implies(in, Eq(Select(a1, j), elemAt(lf, h, Sub(j, start)))),
			Implies(Not(in), Eq(Select(a1, j), Select(Select(h, SBase(s)), j))))))
		// realloc: fresh array with old contents then new elements
		a2 := vc.fresh("ap2", ArrSort(lf.sort))
		vc.assume(st, Forall([]Term{j}, [][]Term{{Select(a2, j)}}, And(
			Implies(And(Le(IntLit(0), j), Lt(j, SLen(s))), Eq(Select(a2, j), Select(Select(h, SBase(s)), Add(SOff(s), j)))),
			Implies(And(Le(SLen(s), j), Lt(j, newLen)), Eq(Select(a2, j), elemAt(lf, h, Sub(j, SLen(s))))))))
		if vc.checkFrm {
			sub := st.clone()
			sub.pc = vc.newPC(st, inplace)
			vc.frameCheckCells(sub, lf.key, SBase(s), start, Add(start, n), pos)
		}
		vc.setHeap(st, lf.key, Ite(inplace, Store(h, SBase(s), a1), Store(h, nb, a2)))
	}
	res := Ite(inplace, MkSlice(SBase(s), SOff(s), newLen, SCap(s)), MkSlice(nb, IntLit(0), newLen, ncap))
	out := vc.define("apres", res)
	for i, lf := range leaves {
		vc.linkSlices(lf.key, HeapSort(lf.sort), st.heaps[lf.key], oldHeaps[i], out, s, IntLit(0))
	}
	return out
}

// ---------------------------------------------------------------------------
// calls

func (vc *VC) callFunc(fr *frame, st *State, fv *FuncV, args []Val, c *ast.CallExpr) Val {
	pos := c.Pos()
	if fv.Lit != nil {
		return vc.inlineLit(fr, st, fv.Lit, args, pos)
	}
	if fv.Fn != nil {
		fi := fv.Fn
		ct := vc.P.Specs.Contracts[fi.Key]
		if ct != nil && !ct.Inline && (len(ct.Ensures) > 0 || len(ct.Requires) > 0 || ct.HasMod || ct.Trusted) {
			return vc.callByContract(fr, st, ct, fi.Obj, fi, fv.Recv, args, pos)
		}
		return vc.inlineCall(st, fi, fv.Recv, args, pos, false)
	}
	if fv.Ext != nil {
		fo := fv.Ext
		sig := fo.Type().(*types.Signature)
		// interface method: dynamic dispatch
		if sig.Recv() != nil {
			if it, ok := sig.Recv().Type().Underlying().(*types.Interface); ok {
				key := FuncKey(fo)
				if ct := vc.P.Specs.Contracts[key]; ct != nil {
					return vc.callByContract(fr, st, ct, fo, nil, fv.Recv, args, pos)
				}
				return vc.dispatch(fr, st, it, fo, vc.term(fv.Recv), args, c)
			}
		}
		key := FuncKey(fo)
		if ct := vc.P.Specs.Contracts[key]; ct != nil {
			return vc.callByContract(fr, st, ct, fo, nil, fv.Recv, args, pos)
		}
		if v, ok := vc.stdlibModel(fr, st, fo, fv.Recv, args, pos); ok {
			return v
		}
		vc.errorf(pos, "call of external function %s without contract or model", key)
		return vc.havocResult(st, sig)
	}
	vc.errorf(pos, "call of unknown function value")
	return IntLit(0)
}

func (vc *VC) havocResult(st *State, sig *types.Signature) Val {
	res := sig.Results()
	switch res.Len() {
	case 0:
		return TupleV{}
	case 1:
		v := vc.havocVal(res.At(0).Type(), "res")
		vc.assume(st, vc.typeFacts(v, res.At(0).Type(), st.alloc))
		return v
	}
	out := make(TupleV, res.Len())
	for i := range out {
		out[i] = vc.havocVal(res.At(i).Type(), "res")
		vc.assume(st, vc.typeFacts(out[i], res.At(i).Type(), st.alloc))
	}
	return out
}

// dispatch performs closed-world dynamic dispatch over module implementers.
func (vc *VC) dispatch(fr *frame, st *State, it *types.Interface, m *types.Func, recv Term, args []Val, c *ast.CallExpr) Val {
	impls := vc.P.Implementers(it)
	var outs []*State
	var vals []Val
	var any Term = False
	for _, impl := range impls {
		obj, _, _ := types.LookupFieldOrMethod(impl, true, m.Pkg(), m.Name())
		mf, ok := obj.(*types.Func)
		if !ok {
			continue
		}
		fi, ok := vc.P.ByObj[mf]
		if !ok {
			continue
		}
		cond := Eq(ITag(recv), IntLit(int64(vc.P.TagOf(impl))))
		any = Or(any, cond)
		sub := st.clone()
		sub.pc = vc.newPC(st, cond)
		// receiver value: unbox the dynamic value and follow the promotion path to the method's receiver
		msig := mf.Type().(*types.Signature)
		_, wantPtr := msig.Recv().Type().Underlying().(*types.Pointer)
		_, implPtr := impl.(*types.Pointer)
		rv, okRecv := vc.resolveRecv(sub, impl, m, IVal(recv), recv, wantPtr, msig.Recv().Type())
		if !okRecv {
			vc.errorf(c.Pos(), "cannot resolve receiver of %s on %s", m.Name(), impl)
			continue
		}
		if os.Getenv("GOVC_DEBUG") != "" {
			fmt.Fprintf(os.Stderr, "dispatch %s impl=%s wantPtr=%v implPtr=%v rv=%T\n", m.Name(), impl, wantPtr, implPtr, rv)
		}
		v := vc.callFunc(fr, sub, &FuncV{Fn: fi, Recv: rv}, args, c)
		if sub.pc.S == "false" {
			continue
		}
		outs = append(outs, sub)
		vals = append(vals, v)
	}
	vc.oblige(st, "safety", "dispatch", c.Pos(), any, "dynamic call on nil or unknown implementation of "+m.Name())
	if len(outs) == 0 {
		st.pc = False
		return vc.havocResult(st, m.Type().(*types.Signature))
	}
	pcs := make([]Term, len(outs))
	for i, s := range outs {
		pcs[i] = s.pc
	}
	merged := vc.merge(outs...)
	var res Val
	if len(vals) > 0 && vals[0] != nil {
		res = vc.mergeVals("disp", vals, pcs)
	}
	*st = *merged
	return res
}

// promoteRecv finds the object identity of the (possibly embedded) receiver for method name on struct type t at ref.
func (vc *VC) promoteRecv(st *State, t types.Type, name string, ref Term) Val {
	_, path, _ := types.LookupFieldOrMethod(types.NewPointer(t), true, nil, name)
	if len(path) <= 1 {
		return ref
	}
	r, ok := vc.walkRef(st, ref, t, path[:len(path)-1], token.NoPos)
	if !ok {
		return ref
	}
	return r
}

func (vc *VC) promoteRecvValue(st *State, t types.Type, recvT types.Type, name string, ref Term) Val {
	r := vc.promoteRecv(st, t, name, ref).(Term)
	if structOf(recvT) != nil {
		return vc.loadStruct(st, recvT, r)
	}
	return r
}

// inlineCall executes the callee body in place.
func (vc *VC) inlineCall(st *State, fi *FuncInfo, recv Val, args []Val, pos token.Pos, inSpec bool) Val {
	for _, k := range vc.stack {
		if k == fi.Key {
			vc.errorf(pos, "recursive call of %s needs a contract", ShortKey(fi.Key))
			return vc.havocResult(st, fi.Obj.Type().(*types.Signature))
		}
	}
	if len(vc.stack) > 12 {
		vc.errorf(pos, "inlining too deep at %s", ShortKey(fi.Key))
		return vc.havocResult(st, fi.Obj.Type().(*types.Signature))
	}
	if fi.Decl.Body == nil {
		vc.errorf(pos, "call of %s without body", ShortKey(fi.Key))
		return vc.havocResult(st, fi.Obj.Type().(*types.Signature))
	}
	vc.stack = append(vc.stack, fi.Key)
	defer func() { vc.stack = vc.stack[:len(vc.stack)-1] }()
	if !inSpec {
		vc.Inlined[fi.Key] = true
	}
	cfr := vc.newFrame(fi, nil)
	cfr.inlined = true
	sig := fi.Obj.Type().(*types.Signature)
	if r := sig.Recv(); r != nil && recv != nil {
		vc.bindParam(st, r, recv)
	}
	for i := 0; i < sig.Params().Len() && i < len(args); i++ {
		vc.bindParam(st, sig.Params().At(i), args[i])
	}
	vc.bindResults(cfr, st, sig)
	cfr.snapshotEntry(vc, st)
	return vc.runBody(cfr, st, fi.Decl.Body, sig)
}

func (vc *VC) bindParam(st *State, p *types.Var, v Val) {
	if p.Name() == "_" || p.Name() == "" {
		return
	}
	vc.bindVar(st, p, v)
}

func (vc *VC) bindResults(fr *frame, st *State, sig *types.Signature) {
	fr.results = nil
	for i := 0; i < sig.Results().Len(); i++ {
		rv := sig.Results().At(i)
		if rv.Name() != "" && rv.Name() != "_" {
			vc.bindVar(st, rv, vc.zeroVal(rv.Type()))
			fr.results = append(fr.results, rv)
		}
	}
	if len(fr.results) != sig.Results().Len() {
		fr.results = nil
	}
}

// runBody executes body, merges return states into st and yields the result value.
func (vc *VC) runBody(cfr *frame, st *State, body *ast.BlockStmt, sig *types.Signature) Val {
	work := st.clone()
	end := vc.execBlock(cfr, work, body.List)
	if end != nil {
		// fall off the end
		var vals []Val
		for _, rv := range cfr.results {
			vals = append(vals, vc.readVar(cfr, end, rv, body.Rbrace))
		}
		cfr.returns = append(cfr.returns, &retState{st: end, vals: vals})
	}
	if len(cfr.returns) == 0 {
		st.pc = False
		return vc.havocResult(st, sig)
	}
	states := make([]*State, len(cfr.returns))
	pcs := make([]Term, len(cfr.returns))
	for i, r := range cfr.returns {
		states[i] = r.st
		pcs[i] = r.st.pc
	}
	n := sig.Results().Len()
	var res Val
	if n > 0 {
		cols := make(TupleV, n)
		for j := 0; j < n; j++ {
			col := make([]Val, len(cfr.returns))
			for i, r := range cfr.returns {
				if j < len(r.vals) {
					col[i] = r.vals[j]
				} else {
					col[i] = vc.zeroVal(sig.Results().At(j).Type())
				}
			}
			cols[j] = vc.mergeVals("ret", col, pcs)
		}
		if n == 1 {
			res = cols[0]
		} else {
			res = cols
		}
	} else {
		res = TupleV{}
	}
	merged := vc.merge(states...)
	if merged == nil {
		st.pc = False
		return res
	}
	*st = *merged
	return res
}

func (vc *VC) inlineLit(fr *frame, st *State, lit *ast.FuncLit, args []Val, pos token.Pos) Val {
	sig := fr.ctx.info.TypeOf(lit).(*types.Signature)
	cfr := &frame{lit: lit, ctx: fr.ctx, sig: sig, loopOrd: map[*ast.ForStmt]int{}, rangeOrd: map[*ast.RangeStmt]int{}, idxVars: map[int]Term{},
		entry: map[string]binding{}, inlined: true, callOrd: map[string]int{}, labelOf: map[ast.Stmt]string{}, fn: fr.fn, specPos: lit.Body.Lbrace + 1}
	numberLoops(cfr, lit.Body, 1000)
	for i := 0; i < sig.Params().Len() && i < len(args); i++ {
		vc.bindParam(st, sig.Params().At(i), args[i])
	}
	vc.bindResults(cfr, st, sig)
	if len(vc.stack) > 14 {
		vc.errorf(pos, "closure inlining too deep")
		return vc.havocResult(st, sig)
	}
	vc.stack = append(vc.stack, fmt.Sprintf("lit@%d", lit.Pos()))
	defer func() { vc.stack = vc.stack[:len(vc.stack)-1] }()
	return vc.runBody(cfr, st, lit.Body, sig)
}

func numberLoops(fr *frame, body ast.Node, start int) {
	n := start
	ast.Inspect(body, func(nd ast.Node) bool {
		switch l := nd.(type) {
		case *ast.ForStmt:
			n++
			fr.loopOrd[l] = n
		case *ast.RangeStmt:
			n++
			fr.rangeOrd[l] = n
		}
		return true
	})
}

func (vc *VC) newFrame(fi *FuncInfo, ct *Contract) *frame {
	if ct == nil {
		ct = vc.P.Specs.Contracts[fi.Key]
	}
	fr := &frame{fn: fi, ctx: &pkgCtx{info: fi.Pkg.TypesInfo, pkg: fi.Pkg.Types}, contract: ct, sig: fi.Obj.Type().(*types.Signature),
		loopOrd: map[*ast.ForStmt]int{}, rangeOrd: map[*ast.RangeStmt]int{}, idxVars: map[int]Term{}, entry: map[string]binding{}, callOrd: map[string]int{}, labelOf: map[ast.Stmt]string{}}
	if fi.Decl.Body != nil {
		numberLoops(fr, fi.Decl.Body, 0)
		fr.specPos = fi.Decl.Body.Lbrace + 1
		if vc.addrTaken == nil {
			vc.addrTaken = map[*types.Var]bool{}
		}
		ast.Inspect(fi.Decl.Body, func(nd ast.Node) bool {
			if u, ok := nd.(*ast.UnaryExpr); ok && u.Op == token.AND {
				if id, ok := u.X.(*ast.Ident); ok {
					if o, ok := fi.Pkg.TypesInfo.ObjectOf(id).(*types.Var); ok && structOf(o.Type()) == nil {
						if _, isArr := o.Type().Underlying().(*types.Array); !isArr {
							vc.addrTaken[o] = true
						}
					}
				}
			}
			return true
		})
		fr.stmtOrd = map[ast.Stmt]int{}
		fr.stmtKey = map[ast.Stmt]string{}
		n := 0
		seen := map[string]int{}
		ast.Inspect(fi.Decl.Body, func(nd ast.Node) bool {
			if _, isLit := nd.(*ast.FuncLit); isLit {
				return false
			}
			if st, ok := nd.(ast.Stmt); ok {
				if _, isBlock := st.(*ast.BlockStmt); !isBlock {
					n++
					fr.stmtOrd[st] = n
					// text key: the statement's first source line (a compound statement's header), white
					// space collapsed; the k-th statement with the same text gets the suffix #k (k > 1)
					txt := StmtText(vc.P, st)
					seen[txt]++
					key := "stmt[" + txt + "]"
					if seen[txt] > 1 {
						key = fmt.Sprintf("stmt[%s]#%d", txt, seen[txt])
					}
					fr.stmtKey[st] = key
				}
			}
			return true
		})
	}
	return fr
}

// snapshotEntry records entry values of parameters as name0 and name.
func (fr *frame) snapshotEntry(vc *VC, st *State) {
	add := func(v *types.Var) {
		if v == nil || v.Name() == "" || v.Name() == "_" {
			return
		}
		val, ok := st.vars[v]
		if !ok {
			return
		}
		if structOf(v.Type()) != nil {
			if ref, ok := val.(Term); ok {
				val = vc.loadStruct(st, v.Type(), ref)
			}
		}
		fr.entry[v.Name()+"0"] = binding{val, v.Type()}
	}
	add(fr.sig.Recv())
	for i := 0; i < fr.sig.Params().Len(); i++ {
		add(fr.sig.Params().At(i))
	}
}

// ---------------------------------------------------------------------------
// call by contract

func (vc *VC) callByContract(fr *frame, st *State, ct *Contract, fo *types.Func, fi *FuncInfo, recv Val, args []Val, pos token.Pos) Val {
	sig := fo.Type().(*types.Signature)
	short := ShortKey(ct.Key)
	vc.CallsContract[ct.Key] = true
	if ct.Trusted {
		vc.Trusted[ct.Key] = true
	}
	names := map[string]binding{}
	bind := func(p *types.Var, v Val) {
		if p == nil || p.Name() == "" || p.Name() == "_" || v == nil {
			return
		}
		names[p.Name()] = binding{v, p.Type()}
		names[p.Name()+"0"] = binding{v, p.Type()}
	}
	if sig.Recv() != nil {
		bind(sig.Recv(), recv)
		if _, ok := names["recv"]; !ok && recv != nil {
			names["recv"] = binding{recv, sig.Recv().Type()}
		}
	}
	for i := 0; i < sig.Params().Len() && i < len(args); i++ {
		bind(sig.Params().At(i), args[i])
		names[fmt.Sprintf("arg%d", i+1)] = binding{args[i], sig.Params().At(i).Type()}
	}
	var pk *types.Package
	if fo.Pkg() != nil {
		pk = fo.Pkg()
	}
	mkEnv := func(cur, old *State, allocB Term) *specEnv {
		nm := map[string]binding{}
		for k, v := range names {
			nm[k] = v
		}
		return &specEnv{vc: vc, st: cur, old: old, names: nm, pkg: pk, allocB: allocB, pos: pos}
	}
	vc.callCount(fr, short)
	if r := sig.Recv(); r != nil && recv != nil && !vc.noSafety && !ct.NilRecv {
		if _, isPtr := r.Type().Underlying().(*types.Pointer); isPtr {
			if rt, ok := recv.(Term); ok && rt.Sort == SInt {
				vc.oblige(st, "safety", "nil", pos, Not(Eq(rt, IntLit(0))), "method call on nil receiver")
			}
		}
	}
	// preconditions
	for i, rq := range ct.Requires {
		g := mkEnv(st, nil, st.alloc).evalBool(rq.Expr)
		lbl := rq.Label
		if lbl == "" {
			lbl = fmt.Sprintf("%d", i+1)
		}
		if !vc.noSafety {
			for _, cj := range splitConj(g) {
				vc.oblige(st, "pre@call", short+"."+lbl, pos, cj, "precondition of "+short+": "+rq.Text)
			}
		}
	}
	for _, pw := range ct.PanicsWhen {
		g := mkEnv(st, nil, st.alloc).evalBool(pw.Expr)
		if !vc.noSafety {
			vc.oblige(st, "panic-unreachable", "call."+short, pos, Not(g), short+" panics when "+pw.Text)
		}
	}
	// frame
	locs := mkEnv(st, nil, st.alloc).modLocs(ct.Modifies)
	if vc.checkFrm {
		// callee's writes must be inside the caller's frame
		for _, m := range locs {
			if m.field {
				vc.frameCheckField(st, m.heap, m.base, pos)
			} else {
				vc.frameCheckCells(st, m.heap, m.base, m.lo, m.hi, pos)
			}
		}
	}
	old := st.clone()
	// which heaps may change
	eff := newEffects()
	for _, m := range locs {
		eff.Heaps[m.heap] = vc.heapSort[m.heap]
	}
	if fi != nil && !ct.Pure {
		eff.add(vc.effectsOfFunc(fi))
	}
	for _, a := range ct.Allocates {
		if s, ok := vc.heapSort[a]; ok {
			eff.Heaps[a] = s
		}
	}
	if len(eff.Heaps) > 0 || !ct.Pure {
		na := vc.fresh("alloc", SInt)
		vc.assume(st, Ge(na, st.alloc))
		st.alloc = na
	}
	for _, k := range sortedKeys(eff.Heaps) {
		srt := eff.Heaps[k]
		if srt == "" {
			srt = vc.heapSort[k]
		}
		if srt == "" {
			continue
		}
		oldH := vc.heap(old, k, srt)
		nh := vc.fresh("H!"+k, oldH.Sort)
		st.heaps[k] = nh
		vc.linkHeaps(k, nh, oldH)
		vc.linkHeapsBack(k, nh, oldH)
		vc.frameFacts(st, k, oldH, nh, locs, old.alloc)
		vc.heapInvariant(nh, st.alloc, st.pc)
		vc.heapRange(k, nh, st.pc)
	}
	// results
	res := sig.Results()
	var out Val
	rvals := make([]Val, res.Len())
	for i := 0; i < res.Len(); i++ {
		rv := res.At(i)
		v := vc.havocVal(rv.Type(), "r!"+fo.Name())
		vc.assume(st, vc.typeFacts(v, rv.Type(), st.alloc))
		rvals[i] = v
		b := binding{v, rv.Type()}
		if rv.Name() != "" && rv.Name() != "_" {
			names[rv.Name()] = b
			names[rv.Name()+"_"] = b
		}
		names[fmt.Sprintf("res%d", i+1)] = b
		if res.Len() == 1 {
			names["res"] = b
		}
	}
	switch res.Len() {
	case 0:
		out = TupleV{}
	case 1:
		out = rvals[0]
	default:
		out = TupleV(rvals)
	}
	for _, en := range ct.Ensures {
		if en.Label == "local" || strings.HasPrefix(en.Label, "local-") {
			// `ensures [local] P`: proved against the body, not exported to callers (keeps the callers'
			// contexts small when they do not need P; assuming less is sound)
			continue
		}
		if strings.HasPrefix(en.Label, "assumed-") && vc.Trusted != nil {
			vc.Trusted["assumed postcondition of "+short+": "+en.Text] = true
		}
		vc.assume(st, mkEnv(st, old, old.alloc).evalBool(en.Expr))
	}
	if fr != nil {
		// hints after a call see the Go locals in scope at the call
		savedPos := fr.specPos
		if pos.IsValid() && !fr.inlined {
			fr.specPos = pos
		}
		vc.applyHints(fr, st, "after:"+short)
		vc.applyHints(fr, st, fmt.Sprintf("after:%s#%d", short, fr.callOrd[short]))
		fr.specPos = savedPos
	}
	return out
}

func (vc *VC) callCount(fr *frame, short string) {
	if fr == nil {
		return
	}
	fr.callOrd[short]++
}

// applyHints processes `at <label>: use lemma(args) | assert e` hints.
func (vc *VC) applyHints(fr *frame, st *State, label string) {
	if fr == nil || fr.contract == nil || st == nil {
		return
	}
	if fr.contract == vc.Contract && len(fr.contract.At[label]) > 0 {
		if vc.hintsSeen == nil {
			vc.hintsSeen = map[string]bool{}
		}
		vc.hintsSeen[label] = true
	}
	for _, h := range fr.contract.At[label] {
		switch h.Kind {
		case "use":
			vc.useLemma(fr, st, h.Cl)
		case "apply":
			vc.applyLemma(fr, st, h.Cl)
		case "assert":
			g := vc.evalClause(fr, st, vc.oldState(), h.Cl, nil)
			nm := label
			if vc.hintName != "" {
				// text-keyed statement hints are NAMED by the statement's ordinal (compact, no spaces)
				nm = vc.hintName
			}
			vc.oblige(st, "assert", nm, fr.specPos, g, h.Cl.Text)
			vc.assume(st, g)
		case "assume":
			vc.errorf(fr.specPos, "assume hints are not allowed (%s)", h.Cl.Text)
		}
	}
}

func (vc *VC) oldState() *State {
	return &State{pc: True, vars: map[*types.Var]Val{}, heaps: map[string]Term{}, alloc: vc.alloc0}
}

// useLemma instantiates a proved lemma: its requires become obligations, its ensures assumptions.
func (vc *VC) useLemma(fr *frame, st *State, cl Clause) {
	call, ok := cl.Expr.(SCall)
	if !ok {
		vc.errorf(fr.specPos, "use: expected lemma call, got %s", cl.Text)
		return
	}
	lm, ok := vc.P.Specs.Lemmas[call.Fun]
	if !ok {
		vc.errorf(fr.specPos, "use: unknown lemma %s", call.Fun)
		return
	}
	env := vc.envFor(fr, st, vc.oldState(), nil)
	vc.instLemma(env, st, lm, call.Args, "lemma-pre")
}

func (vc *VC) applyLemma(fr *frame, st *State, cl Clause) {
	call, ok := cl.Expr.(SCall)
	if !ok {
		vc.errorf(fr.specPos, "apply: expected lemma call, got %s", cl.Text)
		return
	}
	lm, ok := vc.P.Specs.Lemmas[call.Fun]
	if !ok {
		vc.errorf(fr.specPos, "apply: unknown lemma %s", call.Fun)
		return
	}
	env := vc.envFor(fr, st, vc.oldState(), nil)
	vc.instLemma(env, st, lm, call.Args, "apply")
}

func (vc *VC) instLemma(env *specEnv, st *State, lm *Lemma, args []SExpr, kind string) {
	if len(args) != len(lm.Params) {
		env.fail("lemma %s: want %d args", lm.Name, len(lm.Params))
		return
	}
	lenv := &specEnv{vc: vc, st: env.st, old: env.old, names: map[string]binding{}, pkg: vc.pkgByPath(lm.Pkg), allocB: env.allocB, pos: env.pos}
	for i, p := range lm.Params {
		v, vt := env.eval(args[i])
		pt := lenv.resolveType(p.Type)
		if pt == nil {
			pt = vt
		}
		if tm, ok := v.(Term); ok && tm.Sort == SInt && (vc.sortOf(pt) == SReal || vc.sortOf(pt) == SF64) {
			v = vc.toFloat(tm)
		}
		lenv.names[p.Name] = binding{v, pt}
	}
	vc.UsedLemmas[lm.Name] = true
	if kind == "apply" {
		// conditional instance: the proved lemma says requires ==> ensures for all arguments, so the
		// implication may be assumed without showing the hypotheses here
		var hyp, con []Term
		for _, rq := range lm.Requires {
			hyp = append(hyp, lenv.evalBool(rq.Expr))
		}
		for _, en := range lm.Ensures {
			con = append(con, lenv.evalBool(en.Expr))
		}
		vc.assume(st, Implies(And(hyp...), And(con...)))
		return
	}
	for i, rq := range lm.Requires {
		g := lenv.evalBool(rq.Expr)
		vc.oblige(st, kind, fmt.Sprintf("%s.%d", lm.Name, i+1), env.pos, g, "lemma "+lm.Name+" requires "+rq.Text)
	}
	for _, en := range lm.Ensures {
		vc.assume(st, lenv.evalBool(en.Expr))
	}
}

// ---------------------------------------------------------------------------
// models of standard library functions used by the repository

func (vc *VC) mathMinMax(isMin bool, a, b Term) Term {
	if vc.Mode == "opaque" {
		fn := "fmax"
		if isMin {
			fn = "fmin"
		}
		vc.declFun(fn, []Sort{SF64, SF64}, SF64)
		return App(SF64, fn, a, b)
	}
	if isMin {
		return Ite(Le(a, b), a, b)
	}
	return Ite(Ge(a, b), a, b)
}

func (vc *VC) stdlibModel(fr *frame, st *State, fo *types.Func, recv Val, args []Val, pos token.Pos) (Val, bool) {
	pkg := ""
	if fo.Pkg() != nil {
		pkg = fo.Pkg().Path()
	}
	name := fo.Name()
	sig := fo.Type().(*types.Signature)
	full := pkg + "." + name
	if sig.Recv() != nil {
		full = FuncKey(fo)
	}
	model := func(what string) { vc.Trusted["model:"+what] = true }
	switch full {
	case "math.Sqrt":
		model(full)
		a := vc.term(args[0])
		if vc.Mode != "opaque" && !vc.noSafety {
			vc.oblige(st, "safety", "sqrt", pos, Ge(a, Term{"0.0", SReal}), "sqrt of negative value (NaN source)")
		}
		return vc.sqrtTerm(st, a), true
	case "math.Abs":
		model(full)
		a := vc.term(args[0])
		if vc.Mode == "opaque" {
			vc.declFun("fabs", []Sort{SF64}, SF64)
			return App(SF64, "fabs", a), true
		}
		return Ite(Ge(a, Term{"0.0", SReal}), a, App(SReal, "-", a)), true
	case "math.Min", "math.Max":
		model(full)
		return vc.mathMinMax(name == "Min", vc.term(args[0]), vc.term(args[1])), true
	case "math.Inf":
		model(full)
		s := vc.term(args[0])
		if vc.Mode == "opaque" {
			return Ite(Ge(s, IntLit(0)), vc.f64Const(0x7ff0000000000000), vc.f64Const(0xfff0000000000000)), true
		}
		return Ite(Ge(s, IntLit(0)), vc.declConst("PINF", SReal), vc.declConst("NINF", SReal)), true
	case "math.NaN":
		model(full)
		if vc.Mode == "opaque" {
			return vc.f64Const(0x7ff8000000000001), true
		}
		vc.errorf(pos, "math.NaN in real mode")
		return Term{"0.0", SReal}, true
	case "math.IsNaN":
		model(full)
		if vc.Mode == "opaque" {
			vc.declFun("fisnan", []Sort{SF64}, SBool)
			return App(SBool, "fisnan", vc.term(args[0])), true
		}
		return False, true
	case "math.IsInf":
		model(full)
		if vc.Mode == "opaque" {
			vc.declFun("fisinf", []Sort{SF64, SInt}, SBool)
			return App(SBool, "fisinf", vc.term(args[0]), vc.term(args[1])), true
		}
		return False, true
	case "math.Floor":
		model(full)
		a := vc.term(args[0])
		if vc.Mode == "opaque" {
			vc.declFun("ffloor", []Sort{SF64}, SF64)
			return App(SF64, "ffloor", a), true
		}
		return App(SReal, "to_real", App(SInt, "to_int", a)), true
	case "math.Float64bits":
		model(full)
		vc.declFun("f64bits", []Sort{vc.floatSort()}, SInt)
		vc.declFun("f64frombits", []Sort{SInt}, vc.floatSort())
		a := vc.term(args[0])
		r := App(SInt, "f64bits", a)
		vc.assume(st, And(Le(IntLit(0), r), Lt(r, Term{"18446744073709551616", SInt}), Eq(App(vc.floatSort(), "f64frombits", r), a)))
		return r, true
	case "math.Float64frombits":
		model(full)
		vc.declFun("f64bits", []Sort{vc.floatSort()}, SInt)
		vc.declFun("f64frombits", []Sort{SInt}, vc.floatSort())
		a := vc.term(args[0])
		r := App(vc.floatSort(), "f64frombits", a)
		vc.assume(st, Eq(App(SInt, "f64bits", r), a))
		return r, true
	case "errors.New", "fmt.Errorf":
		model(full)
		r := vc.fresh("err", SIface)
		vc.assume(st, And(Eq(ITag(r), IntLit(int64(vc.P.TagOf(types.NewPointer(types.Universe.Lookup("error").Type()))))), Ge(IVal(r), IntLit(0)), Lt(IVal(r), st.alloc)))
		return r, true
	case "fmt.Sprintf", "fmt.Sprint", "strconv.Itoa", "strconv.FormatFloat", "strings.Repeat", "strings.ToUpper", "strings.ToLower", "strings.TrimSpace":
		model(full + " (arbitrary string)")
		r := vc.fresh("str", SSlice)
		vc.assume(st, vc.typeFacts(r, types.Typ[types.String], st.alloc))
		return r, true
	}
	return nil, false
}

var _ = strings.HasPrefix

// resolveRecv computes the receiver argument for method m called on a dynamic value of type impl
// stored in an interface (payload ref / boxed value), following embedded fields.
func (vc *VC) resolveRecv(st *State, impl types.Type, m *types.Func, payload Term, iface Term, wantPtr bool, recvT types.Type) (Val, bool) {
	_, path, _ := types.LookupFieldOrMethod(impl, true, m.Pkg(), m.Name())
	if len(path) == 0 {
		return nil, false
	}
	path = path[:len(path)-1]
	// current position: either a ref to a struct of type cur, or a struct rvalue
	var cur types.Type
	var ref Term
	var sv *StructV
	haveRef := false
	if pt, ok := impl.(*types.Pointer); ok {
		cur, ref, haveRef = pt.Elem(), payload, true
	} else if structOf(impl) != nil {
		cur = impl
		sv = vc.loadStruct(st, impl, payload)
	} else {
		// non-struct named type stored by value
		if len(path) == 0 {
			return vc.fromIface(st, iface, impl), true
		}
		return nil, false
	}
	for _, i := range path {
		s := structOf(cur)
		if s == nil {
			return nil, false
		}
		ft := s.Field(i).Type()
		var fv Val
		if haveRef {
			if structOf(ft) != nil {
				ref = vc.subRef(cur, i, ref)
				cur = ft
				continue
			}
			fv = vc.loadField(st, cur, i, ref)
		} else {
			fv = sv.F[i]
		}
		if pt, ok := ft.Underlying().(*types.Pointer); ok {
			ref, haveRef, cur = vc.term(fv), true, pt.Elem()
			continue
		}
		if inner, ok := fv.(*StructV); ok {
			sv, haveRef, cur = inner, false, ft
			continue
		}
		return nil, false
	}
	if wantPtr {
		if !haveRef {
			return nil, false
		}
		return ref, true
	}
	if structOf(recvT) != nil {
		if haveRef {
			return vc.loadStruct(st, recvT, ref), true
		}
		return sv, true
	}
	if haveRef {
		return ref, true
	}
	return nil, false
}

// StmtText is the normalised source text that identifies a statement in `at stmt[...]:` hints.
func StmtText(p *Prog, st ast.Stmt) string {
	pos := p.Fset.Position(st.Pos())
	end := p.Fset.Position(st.End())
	src, err := os.ReadFile(pos.Filename)
	if err != nil || pos.Offset >= len(src) {
		return ""
	}
	e := end.Offset
	if e > len(src) {
		e = len(src)
	}
	txt := string(src[pos.Offset:e])
	if i := strings.IndexByte(txt, '\n'); i >= 0 {
		txt = txt[:i]
	}
	switch st.(type) {
	case *ast.IfStmt, *ast.ForStmt, *ast.RangeStmt, *ast.SwitchStmt, *ast.TypeSwitchStmt, *ast.CaseClause:
		if i := strings.LastIndexByte(txt, '{'); i >= 0 {
			txt = txt[:i]
		}
	}
	return strings.Join(strings.Fields(txt), " ")
}
