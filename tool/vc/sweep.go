package vc

import (
	"fmt"
	"go/ast"
	"go/token"
	"go/types"
	"sort"
	"strings"
)

// GlobalWriteSweep lists every site in non-test library code that assigns, increments or takes
// the address of a package-level variable (outside its declaration).
func GlobalWriteSweep(p *Prog) []string {
	var out []string
	for _, pk := range p.Pkgs {
		for _, f := range pk.Syntax {
			fname := p.Fset.Position(f.Pos()).Filename
			if strings.HasSuffix(fname, "_test.go") {
				continue
			}
			if strings.Contains(fname, "/cmd/") || strings.Contains(fname, "/examples/") {
				continue
			}
			info := pk.TypesInfo
			isGlobal := func(e ast.Expr) (string, bool) {
				for {
					switch x := e.(type) {
					case *ast.ParenExpr:
						e = x.X
						continue
					case *ast.IndexExpr:
						e = x.X
						continue
					case *ast.SelectorExpr:
						if _, ok := info.Selections[x]; ok {
							e = x.X
							continue
						}
						if v, ok := info.Uses[x.Sel].(*types.Var); ok && v.Pkg() != nil && v.Parent() == v.Pkg().Scope() {
							return v.Pkg().Name() + "." + v.Name(), true
						}
						return "", false
					case *ast.Ident:
						if v, ok := info.Uses[x].(*types.Var); ok && v.Pkg() != nil && v.Parent() == v.Pkg().Scope() {
							return v.Pkg().Name() + "." + v.Name(), true
						}
						return "", false
					default:
						return "", false
					}
				}
			}
			note := func(pos token.Pos, what, name string) {
				ps := p.Fset.Position(pos)
				out = append(out, fmt.Sprintf("%s:%d: %s %s", shortFile(ps.Filename), ps.Line, what, name))
			}
			ast.Inspect(f, func(n ast.Node) bool {
				switch s := n.(type) {
				case *ast.AssignStmt:
					if s.Tok == token.DEFINE {
						return true
					}
					for _, l := range s.Lhs {
						if nm, ok := isGlobal(l); ok {
							note(l.Pos(), "assignment to", nm)
						}
					}
				case *ast.IncDecStmt:
					if nm, ok := isGlobal(s.X); ok {
						note(s.Pos(), "inc/dec of", nm)
					}
				case *ast.UnaryExpr:
					if s.Op == token.AND {
						if nm, ok := isGlobal(s.X); ok {
							note(s.Pos(), "address taken of", nm)
						}
					}
				case *ast.CallExpr:
					// append(global, ...) whose result is assigned elsewhere is caught by the assignment
				}
				return true
			})
		}
	}
	out = append(out, globalEscapeSweep(p)...)
	sort.Strings(out)
	return out
}

// globalEscapeSweep reports uses of package-level variables of reference type (slice, map, pointer, channel,
// function) that let the shared object escape or be written through: anything other than indexing for a read,
// len/cap, range, comparison, a method call on an immutable standard-library object (*regexp.Regexp), or
// passing it to a read-only byte/string helper. A returned, aliased or passed-on reference is shared mutable
// state in the hands of the caller.
func globalEscapeSweep(p *Prog) []string {
	var out []string
	refLike := func(t types.Type) bool {
		if t == nil {
			return false
		}
		if types.Identical(t, types.Universe.Lookup("error").Type()) {
			return false
		}
		switch t.Underlying().(type) {
		case *types.Slice, *types.Map, *types.Pointer, *types.Chan, *types.Signature:
			return true
		}
		return false
	}
	for _, pk := range p.Pkgs {
		for _, f := range pk.Syntax {
			fname := p.Fset.Position(f.Pos()).Filename
			if strings.HasSuffix(fname, "_test.go") || strings.Contains(fname, "/cmd/") || strings.Contains(fname, "/examples/") ||
				strings.HasSuffix(fname, "test_data.go") || strings.Contains(fname, "/internal/testdata/") {
				continue
			}
			info := pk.TypesInfo
			var stack []ast.Node
			ast.Inspect(f, func(n ast.Node) bool {
				if n == nil {
					stack = stack[:len(stack)-1]
					return true
				}
				stack = append(stack, n)
				id, ok := n.(*ast.Ident)
				if !ok {
					return true
				}
				v, ok := info.Uses[id].(*types.Var)
				if !ok || v.Pkg() == nil || v.Parent() != v.Pkg().Scope() || !refLike(v.Type()) {
					return true
				}
				if !strings.HasPrefix(v.Pkg().Path(), "github.com/twpayne/go-geom") {
					// objects owned by other modules (time.UTC ...) are outside this repository's promise
					return true
				}
				if len(stack) < 2 {
					return true
				}
				par := stack[len(stack)-2]
				// qualified use pkg.Var: look one level further up
				if sel, ok := par.(*ast.SelectorExpr); ok && sel.Sel == id && len(stack) >= 3 {
					if _, isPkg := info.Uses[identOf(sel.X)].(*types.PkgName); isPkg {
						par = stack[len(stack)-3]
					}
				}
				allowed := false
				switch x := par.(type) {
				case *ast.IndexExpr:
					allowed = sameNode(x.X, id)
				case *ast.RangeStmt:
					allowed = sameNode(x.X, id)
				case *ast.BinaryExpr:
					allowed = x.Op == token.EQL || x.Op == token.NEQ
				case *ast.CallExpr:
					if fid, ok := x.Fun.(*ast.Ident); ok && (fid.Name == "len" || fid.Name == "cap") {
						allowed = true
					}
					// the elements are only read: append(dst, g...) / copy(dst, g) with g not the destination
					if fid, ok := x.Fun.(*ast.Ident); ok && (fid.Name == "append" || fid.Name == "copy") && len(x.Args) >= 2 && !sameNode(x.Args[0], id) {
						allowed = true
					}
					if fsel, ok := x.Fun.(*ast.SelectorExpr); ok {
						if pn, ok := info.Uses[identOf(fsel.X)].(*types.PkgName); ok {
							switch pn.Imported().Path() {
							case "bytes", "strings":
								allowed = true // read-only helpers (Equal, HasPrefix, ...)
							}
						}
					}
				case *ast.SelectorExpr:
					if sameNode(x.X, id) {
						if nt := namedOf(v.Type()); nt != nil && nt.Obj().Pkg() != nil && nt.Obj().Pkg().Path() == "regexp" {
							allowed = true
						}
					}
				}
				if !allowed {
					ps := p.Fset.Position(id.Pos())
					out = append(out, fmt.Sprintf("%s:%d: reference-typed package variable %s.%s escapes (%T)", shortFile(ps.Filename), ps.Line, v.Pkg().Name(), v.Name(), par))
				}
				return true
			})
		}
	}
	return out
}

func identOf(e ast.Expr) *ast.Ident {
	id, _ := e.(*ast.Ident)
	return id
}

func sameNode(e ast.Expr, id *ast.Ident) bool {
	for {
		if p, ok := e.(*ast.ParenExpr); ok {
			e = p.X
			continue
		}
		break
	}
	if x, ok := e.(*ast.Ident); ok {
		return x == id
	}
	if s, ok := e.(*ast.SelectorExpr); ok {
		return s.Sel == id
	}
	return false
}

func namedOf(t types.Type) *types.Named {
	if p, ok := t.Underlying().(*types.Pointer); ok {
		t = p.Elem()
	}
	if p, ok := t.(*types.Pointer); ok {
		t = p.Elem()
	}
	n, _ := t.(*types.Named)
	return n
}

// ReplayProgram builds an in-package Go test from the model of a failed obligation.
// It returns "" when no concrete input can be derived.
func ReplayProgram(p *Prog, o *Obligation) (src string, pkgDir string, why string) {
	return buildReplay(p, o)
}

// PrintStmtOrdinals lists the statement ordinals used by `at stmtN:` hints.
func PrintStmtOrdinals(p *Prog, fi *FuncInfo) {
	if fi.Decl.Body == nil {
		return
	}
	n := 0
	seenTxt := map[string]int{}
	ast.Inspect(fi.Decl.Body, func(nd ast.Node) bool {
		if _, isLit := nd.(*ast.FuncLit); isLit {
			return false
		}
		if st, ok := nd.(ast.Stmt); ok {
			if _, isBlock := st.(*ast.BlockStmt); !isBlock {
				n++
				pos := p.Fset.Position(st.Pos())
				txt := StmtText(p, st)
				seenTxt[txt]++
				key := "stmt[" + txt + "]"
				if seenTxt[txt] > 1 {
					key = fmt.Sprintf("stmt[%s]#%d", txt, seenTxt[txt])
				}
				fmt.Printf("stmt%-3d %s:%d %T\t%s\n", n, shortFile(pos.Filename), pos.Line, st, key)
			}
		}
		return true
	})
}
