package vc

import (
	"fmt"
	"go/ast"
	"go/token"
	"go/types"
	"sort"
	"strings"
)

// GlobalWriteSweep lists every site in non-test library code that assigns, increments or takes
// the address of a package-level variable (outside its declaration).
func GlobalWriteSweep(p *Prog) []string {
	var out []string
	for _, pk := range p.Pkgs {
		for _, f := range pk.Syntax {
			fname := p.Fset.Position(f.Pos()).Filename
			if strings.HasSuffix(fname, "_test.go") {
				continue
			}
			if strings.Contains(fname, "/cmd/") || strings.Contains(fname, "/examples/") {
				continue
			}
			info := pk.TypesInfo
			isGlobal := func(e ast.Expr) (string, bool) {
				for {
					switch x := e.(type) {
					case *ast.ParenExpr:
						e = x.X
						continue
					case *ast.IndexExpr:
						e = x.X
						continue
					case *ast.SelectorExpr:
						if _, ok := info.Selections[x]; ok {
							e = x.X
							continue
						}
						if v, ok := info.Uses[x.Sel].(*types.Var); ok && v.Pkg() != nil && v.Parent() == v.Pkg().Scope() {
							return v.Pkg().Name() + "." + v.Name(), true
						}
						return "", false
					case *ast.Ident:
						if v, ok := info.Uses[x].(*types.Var); ok && v.Pkg() != nil && v.Parent() == v.Pkg().Scope() {
							return v.Pkg().Name() + "." + v.Name(), true
						}
						return "", false
					default:
						return "", false
					}
				}
			}
			note := func(pos token.Pos, what, name string) {
				ps := p.Fset.Position(pos)
				out = append(out, fmt.Sprintf("%s:%d: %s %s", shortFile(ps.Filename), ps.Line, what, name))
			}
			ast.Inspect(f, func(n ast.Node) bool {
				switch s := n.(type) {
				case *ast.AssignStmt:
					if s.Tok == token.DEFINE {
						return true
					}
					for _, l := range s.Lhs {
						if nm, ok := isGlobal(l); ok {
							note(l.Pos(), "assignment to", nm)
						}
					}
				case *ast.IncDecStmt:
					if nm, ok := isGlobal(s.X); ok {
						note(s.Pos(), "inc/dec of", nm)
					}
				case *ast.UnaryExpr:
					if s.Op == token.AND {
						if nm, ok := isGlobal(s.X); ok {
							note(s.Pos(), "address taken of", nm)
						}
					}
				case *ast.CallExpr:
					// append(global, ...) whose result is assigned elsewhere is caught by the assignment
				}
				return true
			})
		}
	}
	sort.Strings(out)
	return out
}

// ReplayProgram builds an in-package Go test from the model of a failed obligation.
// It returns "" when no concrete input can be derived.
func ReplayProgram(p *Prog, o *Obligation) (src string, pkgDir string, why string) {
	return buildReplay(p, o)
}

// PrintStmtOrdinals lists the statement ordinals used by `at stmtN:` hints.
func PrintStmtOrdinals(p *Prog, fi *FuncInfo) {
	if fi.Decl.Body == nil {
		return
	}
	n := 0
	ast.Inspect(fi.Decl.Body, func(nd ast.Node) bool {
		if _, isLit := nd.(*ast.FuncLit); isLit {
			return false
		}
		if st, ok := nd.(ast.Stmt); ok {
			if _, isBlock := st.(*ast.BlockStmt); !isBlock {
				n++
				pos := p.Fset.Position(st.Pos())
				fmt.Printf("stmt%-3d %s:%d %T\n", n, shortFile(pos.Filename), pos.Line, st)
			}
		}
		return true
	})
}
