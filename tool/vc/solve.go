package vc

import (
	"bytes"
	"context"
	"fmt"
	"hash/fnv"
	"os"
	"os/exec"
	"path/filepath"
	"runtime"
	"strings"
	"sync"
	"time"
)

const preambleCommon = `(declare-sort F64 0)
(declare-datatypes ((Slice 0)) (((mk-slice (s-base Int) (s-off Int) (s-len Int) (s-cap Int)))))
(declare-datatypes ((Iface 0)) (((mk-iface (i-tag Int) (i-val Int)))))
(define-fun slice-ok ((s Slice)) Bool (and (>= (s-base s) 0) (>= (s-off s) 0) (<= 0 (s-len s)) (<= (s-len s) (s-cap s)) (=> (= (s-base s) 0) (= (s-cap s) 0))))
`

// SMT renders the query of obligation o for the given solver family ("z3" or "cvc5").
func (o *Obligation) SMT(family string, timeoutMs int, seed int) string {
	var b strings.Builder
	vc := o.vc
	if family == "cvc5" {
		b.WriteString("(set-option :produce-models true)\n(set-logic ALL)\n")
	} else {
		fmt.Fprintf(&b, "(set-option :timeout %d)\n(set-option :smt.random_seed %d)\n(set-option :sat.random_seed %d)\n", timeoutMs, seed, seed)
	}
	fmt.Fprintf(&b, "; obligation %s\n; %s\n; %s\n", o.Name, o.Where, strings.ReplaceAll(o.Desc, "\n", " "))
	b.WriteString(preambleCommon)
	for _, d := range vc.decls[:o.NDecl] {
		b.WriteString(d)
		b.WriteByte('\n')
	}
	// declarations introduced later may be referenced by facts patched in place; include all
	// declarations whose names occur (cheap over-approximation: include every declaration).
	for _, d := range vc.decls[o.NDecl:] {
		b.WriteString(d)
		b.WriteByte('\n')
	}
	// relevance closure over keyed axioms
	syms := map[string]bool{}
	for _, h := range headSymbols(o.Goal.S) {
		syms[h] = true
	}
	for _, h := range headSymbols(o.PC.S) {
		syms[h] = true
	}
	direct := map[string]bool{}
	for k := range syms {
		direct[k] = true
	}
	include := map[int]bool{}
	if !o.Pruned {
		for i := range vc.facts[:o.NFacts] {
			include[i] = true
		}
	} else {
		for changed := true; changed; {
			changed = false
			for i := 0; i < o.NFacts; i++ {
				keys, keyed := vc.factKeys[i]
				if !keyed || include[i] {
					continue
				}
				hit := false
				for _, k := range keys {
					if strings.HasPrefix(k, "direct:") {
						if direct[k[7:]] {
							hit = true
						}
						continue
					}
					if syms[k] || syms[strings.TrimSuffix(strings.TrimSuffix(k, "!1"), "!0")] {
						hit = true
					}
				}
				if hit {
					include[i] = true
					changed = true
					for _, h := range headSymbols(vc.facts[i]) {
						syms[h] = true
					}
				}
			}
		}
	}
	for i, f := range vc.facts[:o.NFacts] {
		if _, keyed := vc.factKeys[i]; keyed && !include[i] {
			continue
		}
		b.WriteString("(assert ")
		b.WriteString(f)
		b.WriteString(")\n")
	}
	b.WriteString("(assert ")
	b.WriteString(o.PC.S)
	b.WriteString(")\n(assert (not ")
	b.WriteString(o.Goal.S)
	b.WriteString("))\n(check-sat)\n")
	if !o.Canary {
		b.WriteString("(get-model)\n")
	}
	return b.String()
}

type SolverCfg struct {
	Name   string
	Family string
	Cmd    func(file string, timeoutS int, seed int) []string
}

var Solvers = []SolverCfg{
	{"z3-5.1.0", "z3", func(f string, t, seed int) []string { return []string{"z3-new", "-T:" + fmt.Sprint(t), f} }},
	{"z3-5.1.0-nonra", "z3", func(f string, t, seed int) []string {
		return []string{"z3-new", "-T:" + fmt.Sprint(t), "smt.arith.nl.nra=false", f}
	}},
	{"z3-4.8.12", "z3", func(f string, t, seed int) []string { return []string{"z3", "-T:" + fmt.Sprint(t), f} }},
	{"cvc5-1.0.3", "cvc5", func(f string, t, seed int) []string {
		return []string{"cvc5", "--lang", "smt2", "--tlimit", fmt.Sprint(t * 1000), "--seed", fmt.Sprint(seed), f}
	}},
}

type SolveOpts struct {
	TimeoutS int
	Seed     int
	OutDir   string
	Workers  int
	All      bool // run every solver on every obligation and report disagreements
	Keep     bool // keep SMT files of discharged obligations
}

type solverResult struct {
	solver string
	status string
	out    string
	dur    float64
}

// solverSlots bounds the number of solver processes running at once, so that per-obligation time-outs
// measure solver work and not CPU contention.
var solverSlots = make(chan struct{}, solverProcs())

func solverProcs() int {
	n := runtime.NumCPU() - 2
	if n < 2 {
		n = 2
	}
	return n
}

func runSolver(ctx context.Context, sc SolverCfg, file string, timeoutS, seed int) solverResult {
	select {
	case solverSlots <- struct{}{}:
	case <-ctx.Done():
		return solverResult{sc.Name, "timeout", "cancelled before start", 0}
	}
	defer func() { <-solverSlots }()
	args := sc.Cmd(file, timeoutS, seed)
	start := time.Now()
	cctx, cancel := context.WithTimeout(ctx, time.Duration(timeoutS+2)*time.Second)
	defer cancel()
	cmd := exec.CommandContext(cctx, args[0], args[1:]...)
	var out bytes.Buffer
	cmd.Stdout = &out
	cmd.Stderr = &out
	_ = cmd.Run()
	dur := time.Since(start).Seconds()
	text := out.String()
	first := ""
	for _, ln := range strings.Split(text, "\n") {
		ln = strings.TrimSpace(ln)
		if ln == "" || strings.HasPrefix(ln, "WARNING") || strings.HasPrefix(ln, "(warning") {
			continue
		}
		first = ln
		break
	}
	status := "error"
	switch {
	case first == "unsat":
		status = "unsat"
	case first == "sat":
		status = "sat"
	case first == "unknown":
		status = "unknown"
	case first == "timeout" || strings.Contains(first, "timeout") || cctx.Err() != nil:
		status = "timeout"
	case strings.Contains(text, "interrupted") || strings.Contains(text, "time limit"):
		status = "timeout"
	}
	return solverResult{sc.Name, status, text, dur}
}

func fileName(name string) string {
	s := smtName(name)
	if len(s) > 150 {
		// keep truncated names distinct: obligations are solved concurrently, one file each
		h := fnv.New64a()
		h.Write([]byte(name))
		s = fmt.Sprintf("%s_%016x", s[:130], h.Sum64())
	}
	return s
}

// Solve discharges one obligation, racing the configured solvers.
func (o *Obligation) Solve(opts SolveOpts) {
	if !o.triedGround && !o.Canary && o.vc.Mode != "opaque" {
		// real-arithmetic VCs: try the quantifier-free relaxation first
		o.triedGround = true
		os.MkdirAll(opts.OutDir, 0o755)
		gf := filepath.Join(opts.OutDir, fileName(o.Name)+".ground.smt2")
		gt := opts.TimeoutS
		if gt > 10 {
			gt = 10
		}
		gf0 := filepath.Join(opts.OutDir, fileName(o.Name)+".reals.smt2")
		gf2 := filepath.Join(opts.OutDir, fileName(o.Name)+".ground2.smt2")
		gf3 := filepath.Join(opts.OutDir, fileName(o.Name)+".ground3.smt2")
		os.WriteFile(gf, []byte(o.SMTGround(gt*1000, opts.Seed, 1)), 0o644)
		os.WriteFile(gf0, []byte(o.SMTGround(gt*1000, opts.Seed, 0)), 0o644)
		os.WriteFile(gf2, []byte(o.SMTGround(gt*1000, opts.Seed, 2)), 0o644)
		os.WriteFile(gf3, []byte(o.SMTGround(gt*1000, opts.Seed, 3)), 0o644)
		start := time.Now()
		files := []string{gf0, gf3, gf, gf2}
		ch := make(chan solverResult, 2*len(files))
		ctx, cancel := context.WithCancel(context.Background())
		for _, file := range files {
			for _, sc := range []SolverCfg{Solvers[0], Solvers[2]} {
				sc, file := sc, file
				go func() { ch <- runSolver(ctx, sc, file, gt, opts.Seed) }()
			}
		}
		var got *solverResult
		for i := 0; i < 2*len(files); i++ {
			r := <-ch
			if r.status == "unsat" {
				got = &r
				break
			}
		}
		cancel()
		if !opts.Keep {
			os.Remove(gf2)
			os.Remove(gf3)
		}
		if !opts.Keep {
			os.Remove(gf0)
		}
		if got != nil {
			o.Status, o.Solver, o.TimeS, o.SMTFile = "unsat", got.solver+"/ground", time.Since(start).Seconds(), gf
			if !opts.Keep {
				os.Remove(gf)
			}
			return
		}
		if !opts.Keep {
			os.Remove(gf)
		}
	}
	if !o.triedPruned && !o.Canary && len(o.vc.factKeys) > 0 {
		// first attempt: axioms irrelevant to the goal are left out (sound: fewer hypotheses)
		o.triedPruned = true
		o.Pruned = true
		o.Solve(opts)
		if o.Status == "unsat" {
			return
		}
		o.Pruned = false
	}
	dir := opts.OutDir
	os.MkdirAll(dir, 0o755)
	base := filepath.Join(dir, fileName(o.Name))
	fz := base + ".z3.smt2"
	fc := base + ".cvc5.smt2"
	os.WriteFile(fz, []byte(o.SMT("z3", opts.TimeoutS*1000, opts.Seed)), 0o644)
	os.WriteFile(fc, []byte(o.SMT("cvc5", opts.TimeoutS*1000, opts.Seed)), 0o644)
	o.SMTFile = fz
	fileFor := func(sc SolverCfg) string {
		if sc.Family == "cvc5" {
			return fc
		}
		return fz
	}
	start := time.Now()
	// fast path: newest z3 alone with a short budget
	quick := opts.TimeoutS
	if quick > 3 {
		quick = 3
	}
	var results []solverResult
	if !opts.All || o.Canary {
		r := runSolver(context.Background(), Solvers[0], fileFor(Solvers[0]), quick, opts.Seed)
		results = append(results, r)
		if r.status == "unsat" || r.status == "sat" || o.Canary {
			o.finish(results, start, opts)
			return
		}
	}
	ctx, cancel := context.WithCancel(context.Background())
	ch := make(chan solverResult, len(Solvers))
	for _, sc := range Solvers {
		sc := sc
		go func() { ch <- runSolver(ctx, sc, fileFor(sc), opts.TimeoutS, opts.Seed) }()
	}
	for range Solvers {
		r := <-ch
		results = append(results, r)
		if !opts.All && (r.status == "unsat" || r.status == "sat") {
			break
		}
	}
	cancel()
	o.finish(results, start, opts)
}

func (o *Obligation) finish(results []solverResult, start time.Time, opts SolveOpts) {
	o.TimeS = time.Since(start).Seconds()
	var sat, unsat *solverResult
	for i := range results {
		r := &results[i]
		switch r.status {
		case "sat":
			if sat == nil {
				sat = r
			}
		case "unsat":
			if unsat == nil {
				unsat = r
			}
		}
	}
	switch {
	case sat != nil && unsat != nil:
		o.Status = "sat"
		o.Solver = sat.solver
		o.Output = "SOLVER DISAGREEMENT: " + sat.solver + " says sat, " + unsat.solver + " says unsat\n" + sat.out
		o.Model = sat.out
	case sat != nil:
		o.Status, o.Solver, o.Model, o.Output = "sat", sat.solver, sat.out, sat.out
	case unsat != nil:
		o.Status, o.Solver = "unsat", unsat.solver
	default:
		o.Status = "unknown"
		var parts []string
		for _, r := range results {
			parts = append(parts, fmt.Sprintf("%s: %s (%.1fs) %s", r.solver, r.status, r.dur, firstLines(r.out, 3)))
			if r.status == "timeout" {
				o.Status = "timeout"
			}
		}
		o.Output = strings.Join(parts, "\n")
	}
	ok := (o.Status == "unsat" && !o.Canary) || (o.Canary && o.Status != "unsat")
	if ok && !opts.Keep {
		base := strings.TrimSuffix(o.SMTFile, ".z3.smt2")
		os.Remove(base + ".z3.smt2")
		os.Remove(base + ".cvc5.smt2")
	}
}

func firstLines(s string, n int) string {
	ls := strings.Split(strings.TrimSpace(s), "\n")
	if len(ls) > n {
		ls = ls[:n]
	}
	return strings.Join(ls, " | ")
}

// OK reports whether the obligation is discharged (or, for canaries, not refuted).
func (o *Obligation) OK() bool {
	if o.Canary {
		return o.Status != "unsat"
	}
	return o.Status == "unsat"
}

// SolveAll discharges obligations in parallel.
func SolveAll(obls []*Obligation, opts SolveOpts) {
	if opts.Workers <= 0 {
		opts.Workers = 8
	}
	var wg sync.WaitGroup
	ch := make(chan *Obligation)
	for i := 0; i < opts.Workers; i++ {
		wg.Add(1)
		go func() {
			defer wg.Done()
			for o := range ch {
				o.Solve(opts)
			}
		}()
	}
	for _, o := range obls {
		ch <- o
	}
	close(ch)
	wg.Wait()
}
