package vc

import (
	"fmt"
	"go/token"
	"go/types"
	"math/big"
	"strconv"
	"strings"
)

// specEnv is the environment in which a spec expression is evaluated.
type specEnv struct {
	vc     *VC
	st     *State // current state (heaps)
	old    *State // pre-state for old(); nil means st
	names  map[string]binding
	fr     *frame    // optional Go scope for locals
	pos    token.Pos // position for Go scope lookups
	pkg    *types.Package
	allocB Term // allocation bound for fresh(): identities >= allocB are fresh
	depth  int
	fuel   map[string]string // recursive ghost name -> SMT symbol to use for recursive calls
}

func (env *specEnv) with(name string, b binding) *specEnv {
	n := *env
	n.names = make(map[string]binding, len(env.names)+1)
	for k, v := range env.names {
		n.names[k] = v
	}
	n.names[name] = b
	return &n
}

func (env *specEnv) inOld() *specEnv {
	if env.old == nil {
		return env
	}
	n := *env
	n.st = &State{pc: env.st.pc, vars: env.st.vars, heaps: env.old.heaps, alloc: env.old.alloc}
	n.old = nil
	return &n
}

var seqCache = map[string]types.Type{}

// resolveType parses a spec type text.
func (env *specEnv) resolveType(s string) types.Type {
	s = strings.TrimSpace(s)
	switch s {
	case "int":
		return types.Typ[types.Int]
	case "bool":
		return types.Typ[types.Bool]
	case "real", "float64", "float":
		return types.Typ[types.Float64]
	case "string":
		return types.Typ[types.String]
	case "byte":
		return types.Typ[types.Uint8]
	case "uint32":
		return types.Typ[types.Uint32]
	case "uint64":
		return types.Typ[types.Uint64]
	case "error":
		return types.Universe.Lookup("error").Type()
	case "any":
		return types.NewInterfaceType(nil, nil)
	}
	if strings.HasPrefix(s, "seq[") && strings.HasSuffix(s, "]") {
		el := env.resolveType(s[4 : len(s)-1])
		if el == nil {
			return nil
		}
		return types.NewArray(el, -1)
	}
	if strings.HasPrefix(s, "heap[") && strings.HasSuffix(s, "]") {
		el := env.resolveType(s[5 : len(s)-1])
		if el == nil {
			return nil
		}
		return types.NewArray(el, -2)
	}
	if strings.HasPrefix(s, "[]") {
		el := env.resolveType(s[2:])
		if el == nil {
			return nil
		}
		return types.NewSlice(el)
	}
	if strings.HasPrefix(s, "*") {
		el := env.resolveType(s[1:])
		if el == nil {
			return nil
		}
		return types.NewPointer(el)
	}
	if i := strings.Index(s, "."); i >= 0 {
		pn, tn := s[:i], s[i+1:]
		for path, pk := range env.vc.P.Pkgs {
			if pkgBase(path) == pn || pk.Types.Name() == pn {
				if o := pk.Types.Scope().Lookup(tn); o != nil {
					if tno, ok := o.(*types.TypeName); ok {
						return tno.Type()
					}
				}
			}
		}
		// imported packages of env.pkg
		if env.pkg != nil {
			for _, imp := range env.pkg.Imports() {
				if imp.Name() == pn {
					if o, ok := imp.Scope().Lookup(tn).(*types.TypeName); ok {
						return o.Type()
					}
				}
			}
		}
		// a package imported by any module package (e.g. time.Time in a library-level ghost)
		for _, pk := range env.vc.P.Pkgs {
			for _, imp := range pk.Types.Imports() {
				if imp.Name() == pn {
					if o, ok := imp.Scope().Lookup(tn).(*types.TypeName); ok {
						return o.Type()
					}
				}
			}
		}
		return nil
	}
	if env.pkg != nil {
		if o, ok := env.pkg.Scope().Lookup(s).(*types.TypeName); ok {
			return o.Type()
		}
	}
	// search all module packages
	for _, pk := range env.vc.P.Pkgs {
		if o, ok := pk.Types.Scope().Lookup(s).(*types.TypeName); ok {
			return o.Type()
		}
	}
	return nil
}

func (env *specEnv) fail(f string, a ...interface{}) {
	env.vc.errorf(env.pos, "spec: "+f, a...)
}

func (env *specEnv) evalBool(e SExpr) Term {
	v, _ := env.eval(e)
	t, ok := v.(Term)
	if !ok || t.Sort != SBool {
		env.fail("expected boolean expression, got %v", v)
		return True
	}
	return t
}

func (env *specEnv) evalTerm(e SExpr) (Term, types.Type) {
	v, t := env.eval(e)
	tm, ok := v.(Term)
	if !ok {
		env.fail("expected scalar expression")
		return IntLit(0), t
	}
	return tm, t
}

var (
	tInt   = types.Typ[types.Int]
	tBool  = types.Typ[types.Bool]
	tFloat = types.Typ[types.Float64]
)

func (env *specEnv) lookup(name string) (Val, types.Type, bool) {
	if b, ok := env.names[name]; ok {
		return b.V, b.T, true
	}
	vc := env.vc
	if env.fr != nil {
		fr := env.fr
		if b, ok := fr.ghosts[name]; ok {
			return b.V, b.T, true
		}
		// hidden range indices
		if name == "idx" && len(fr.curLoop) > 0 {
			if t, ok := fr.idxVars[fr.curLoop[len(fr.curLoop)-1]]; ok {
				return t, tInt, true
			}
		}
		if strings.HasPrefix(name, "idx") {
			if n, err := strconv.Atoi(name[3:]); err == nil {
				if t, ok := fr.idxVars[n]; ok {
					return t, tInt, true
				}
			}
		}
		// Go locals visible at pos
		if env.pos.IsValid() {
			if sc := fr.ctx.pkg.Scope().Innermost(env.pos); sc != nil {
				if _, o := sc.LookupParent(name, env.pos); o != nil {
					if v, ok := o.(*types.Var); ok {
						if val, ok := env.st.vars[v]; ok {
							if structOf(v.Type()) != nil {
								if ref, isRef := val.(Term); isRef {
									return vc.loadStruct(env.st, v.Type(), ref), v.Type(), true
								}
							}
							if bt, isT := val.(Term); isT && bt.Sort == SPBox {
								h := vc.heap(env.st, "P:"+typeKey(v.Type()), ArrSort(vc.sortOf(v.Type())))
								return Select(h, Term{bt.S, SInt}), v.Type(), true
							}
							return val, v.Type(), true
						}
					}
				}
			}
		}
		// any bound variable with that name (params of the function, named results)
		for v, val := range env.st.vars {
			if v.Name() == name && fr.ownsVar(v) {
				if structOf(v.Type()) != nil {
					if ref, isRef := val.(Term); isRef {
						return vc.loadStruct(env.st, v.Type(), ref), v.Type(), true
					}
				}
				return val, v.Type(), true
			}
		}
		if b, ok := fr.entry[name]; ok {
			return b.V, b.T, true
		}
	}
	// package-level constants and variables
	pkgs := []*types.Package{}
	if env.pkg != nil {
		pkgs = append(pkgs, env.pkg)
	}
	for _, pk := range vc.P.Pkgs {
		if pk.Types != env.pkg {
			pkgs = append(pkgs, pk.Types)
		}
	}
	for i, pk := range pkgs {
		if i > 0 && env.pkg != nil && !token.IsExported(name) {
			break
		}
		switch o := pk.Scope().Lookup(name).(type) {
		case *types.Const:
			if v, ok := vc.constVal(o.Val(), o.Type()); ok {
				return v, o.Type(), true
			}
		case *types.Var:
			return vc.readGlobal(env.st, o), o.Type(), true
		}
		if env.pkg != nil {
			break
		}
	}
	return nil, nil, false
}

func (fr *frame) ownsVar(v *types.Var) bool {
	if fr.sig == nil {
		return false
	}
	if r := fr.sig.Recv(); r != nil && r == v {
		return true
	}
	for i := 0; i < fr.sig.Params().Len(); i++ {
		if fr.sig.Params().At(i) == v {
			return true
		}
	}
	for i := 0; i < fr.sig.Results().Len(); i++ {
		if fr.sig.Results().At(i) == v {
			return true
		}
	}
	return false
}

func (env *specEnv) eval(e SExpr) (Val, types.Type) {
	vc := env.vc
	switch x := e.(type) {
	case SIntL:
		bi, ok := new(big.Int).SetString(x.Val, 0)
		if !ok {
			env.fail("bad integer %s", x.Val)
			return IntLit(0), tInt
		}
		return BigIntLit(bi), tInt
	case SFloatL:
		r, ok := new(big.Rat).SetString(x.Val)
		if !ok {
			env.fail("bad float %s", x.Val)
		}
		if vc.Mode == "opaque" {
			f, _ := r.Float64()
			return vc.floatLit(f, nil), tFloat
		}
		return RatLit(r), tFloat
	case SBoolL:
		if x.Val {
			return True, tBool
		}
		return False, tBool
	case SStr:
		return vc.stringLit(x.Val), types.Typ[types.String]
	case SIdent:
		if x.Name == "nil" {
			return IntLit(0), types.Typ[types.UntypedNil]
		}
		if x.Name == "PINF" || x.Name == "NINF" {
			if vc.Mode == "opaque" {
				if x.Name == "PINF" {
					return vc.f64Const(0x7ff0000000000000), tFloat
				}
				return vc.f64Const(0xfff0000000000000), tFloat
			}
			return vc.declConst(x.Name, SReal), tFloat
		}
		v, t, ok := env.lookup(x.Name)
		if !ok {
			env.fail("unknown name %q", x.Name)
			return IntLit(0), tInt
		}
		return v, t
	case SUn:
		v, t := env.evalTerm(x.X)
		switch x.Op {
		case "!":
			return Not(v), tBool
		case "-":
			if v.Sort == SF64 {
				return vc.floatUn("fneg", v), t
			}
			return App(v.Sort, "-", v), t
		case "*":
			// pointer dereference
			if pt, ok := t.Underlying().(*types.Pointer); ok {
				if structOf(pt.Elem()) != nil {
					return vc.loadStruct(env.st, pt.Elem(), v), pt.Elem()
				}
				h := vc.heap(env.st, "P:"+typeKey(pt.Elem()), ArrSort(vc.sortOf(pt.Elem())))
				return Select(h, v), pt.Elem()
			}
		}
	case SBin:
		return env.evalBin(x)
	case SCond:
		c := env.evalBool(x.C)
		a, ta := env.eval(x.A)
		b, tb := env.eval(x.B)
		at, aok := a.(Term)
		bt, bok := b.(Term)
		if !aok || !bok {
			env.fail("conditional on non-scalar values")
			return a, ta
		}
		at, bt = env.unify(at, bt)
		if isUntypedSpec(ta) {
			ta = tb
		}
		return Ite(c, at, bt), ta
	case SLet:
		v, t := env.eval(x.Val)
		if tm, ok := v.(Term); ok {
			v = vc.defineIn(env, x.Name, tm)
		}
		return env.with(x.Name, binding{v, t}).eval(x.Body)
	case SQuant:
		return env.evalQuant(x), tBool
	case SField:
		// qualified identifier pkg.Name (constant or variable of an imported package)
		if id, ok := x.X.(SIdent); ok && env.pkg != nil {
			if _, _, isVal := env.lookup(id.Name); !isVal {
				for _, imp := range env.pkg.Imports() {
					if imp.Name() != id.Name {
						continue
					}
					switch o := imp.Scope().Lookup(x.Name).(type) {
					case *types.Const:
						if v, ok := vc.constVal(o.Val(), o.Type()); ok {
							return v, o.Type()
						}
					case *types.Var:
						return vc.readGlobal(env.st, o), o.Type()
					}
				}
			}
		}
		return env.evalField(x)
	case SIndex:
		return env.evalIndex(x)
	case SSliceE:
		s, t := env.evalTerm(x.X)
		lo := IntLit(0)
		if x.Lo != nil {
			lo, _ = env.evalTerm(x.Lo)
		}
		hi := SLen(s)
		if x.Hi != nil {
			hi, _ = env.evalTerm(x.Hi)
		}
		return MkSlice(SBase(s), Add(SOff(s), lo), Sub(hi, lo), Sub(SCap(s), lo)), t
	case STypeAssert:
		v, _ := env.evalTerm(x.X)
		t := env.resolveType(x.Type)
		if t == nil {
			env.fail("unknown type %s", x.Type)
			return IntLit(0), tInt
		}
		return vc.fromIface(env.st, v, t), t
	case SCall:
		return env.evalCall(x)
	}
	env.fail("unsupported spec expression %T", e)
	return IntLit(0), tInt
}

func isUntypedSpec(t types.Type) bool {
	if t == nil {
		return true
	}
	b, ok := t.(*types.Basic)
	return ok && b.Kind() == types.UntypedNil
}

// defineIn names a term unless it mentions bound variables (which contain '?').
func (vc *VC) defineIn(env *specEnv, name string, t Term) Term {
	if strings.Contains(t.S, "?") {
		return t
	}
	return vc.define(name, t)
}

// unify coerces Int to Real when mixed.
func (env *specEnv) unify(a, b Term) (Term, Term) {
	if a.Sort == b.Sort {
		return a, b
	}
	if a.Sort == SInt && (b.Sort == SReal || b.Sort == SF64) {
		return env.vc.toFloat(a), b
	}
	if b.Sort == SInt && (a.Sort == SReal || a.Sort == SF64) {
		return a, env.vc.toFloat(b)
	}
	return a, b
}

func (env *specEnv) evalBin(x SBin) (Val, types.Type) {
	vc := env.vc
	switch x.Op {
	case "&&":
		return And(env.evalBool(x.L), env.evalBool(x.R)), tBool
	case "||":
		return Or(env.evalBool(x.L), env.evalBool(x.R)), tBool
	case "==>":
		return Implies(env.evalBool(x.L), env.evalBool(x.R)), tBool
	case "<==>":
		return Eq(env.evalBool(x.L), env.evalBool(x.R)), tBool
	}
	lv, lt := env.eval(x.L)
	rv, rt := env.eval(x.R)
	if x.Op == "==" || x.Op == "!=" {
		var eq Term
		lsv, lIsS := lv.(*StructV)
		rsv, rIsS := rv.(*StructV)
		switch {
		case lIsS && rIsS:
			eq = vc.specStructEq(lsv, rsv)
		default:
			a, aok := lv.(Term)
			b, bok := rv.(Term)
			if !aok || !bok {
				env.fail("cannot compare %T with %T", lv, rv)
				return True, tBool
			}
			eq = env.specEq(a, b, lt, rt)
		}
		if x.Op == "!=" {
			return Not(eq), tBool
		}
		return eq, tBool
	}
	a, aok := lv.(Term)
	b, bok := rv.(Term)
	if !aok || !bok {
		env.fail("operator %s on non-scalar", x.Op)
		return IntLit(0), tInt
	}
	a, b = env.unify(a, b)
	resT := lt
	if isFloat(rt) || isUntypedSpec(lt) {
		resT = rt
	}
	if a.Sort == SF64 {
		tok := map[string]token.Token{"+": token.ADD, "-": token.SUB, "*": token.MUL, "/": token.QUO, "<": token.LSS, "<=": token.LEQ, ">": token.GTR, ">=": token.GEQ}[x.Op]
		r := vc.floatBin(tok, a, b)
		if r.Sort == SBool {
			return r, tBool
		}
		return r, resT
	}
	switch x.Op {
	case "+":
		return Add(a, b), resT
	case "-":
		return Sub(a, b), resT
	case "*":
		return Mul(a, b), resT
	case "/":
		if a.Sort == SReal {
			return App(SReal, "/", a, b), resT
		}
		return App(SInt, "div", a, b), resT
	case "%":
		return App(SInt, "mod", a, b), resT
	case "<":
		return Lt(a, b), tBool
	case "<=":
		return Le(a, b), tBool
	case ">":
		return Gt(a, b), tBool
	case ">=":
		return Ge(a, b), tBool
	case "&":
		if c, ok := x.R.(SIntL); ok {
			bi, _ := new(big.Int).SetString(c.Val, 0)
			return bitAndConst(a, bi), resT
		}
	}
	env.fail("unsupported operator %s", x.Op)
	return IntLit(0), tInt
}

func (vc *VC) specStructEq(a, b *StructV) Term {
	var cs []Term
	for i := range a.F {
		switch x := a.F[i].(type) {
		case Term:
			cs = append(cs, Eq(x, b.F[i].(Term)))
		case *StructV:
			cs = append(cs, vc.specStructEq(x, b.F[i].(*StructV)))
		}
	}
	return And(cs...)
}

// specEq is mathematical equality (bit identity for opaque floats, full slice-header
// identity for slices), except comparison with nil.
func (env *specEnv) specEq(a, b Term, lt, rt types.Type) Term {
	lnil := isUntypedSpec(lt) && a.S == "0"
	rnil := isUntypedSpec(rt) && b.S == "0"
	if rnil || lnil {
		o, ot := a, lt
		if lnil {
			o, ot = b, rt
		}
		switch o.Sort {
		case SSlice:
			return Eq(SBase(o), IntLit(0))
		case SIface:
			return Eq(ITag(o), IntLit(0))
		}
		_ = ot
		return Eq(o, IntLit(0))
	}
	a, b = env.unify(a, b)
	if a.Sort != b.Sort {
		env.fail("comparison of different sorts %s and %s (%s == %s)", a.Sort, b.Sort, a.S, b.S)
		return True
	}
	return Eq(a, b)
}

func (env *specEnv) evalQuant(x SQuant) Term {
	n := env
	var vars []Term
	for _, b := range x.Vars {
		t := env.resolveType(b.Type)
		if t == nil {
			env.fail("unknown binder type %s", b.Type)
			t = tInt
		}
		env.vc.nbound++
		v := Term{fmt.Sprintf("%s?%d", b.Name, env.vc.nbound), env.vc.sortOf(t)}
		vars = append(vars, v)
		n = n.with(b.Name, binding{v, t})
	}
	var pats [][]Term
	for _, tr := range x.Trig {
		var p []Term
		for _, te := range tr {
			tv, _ := n.evalTerm(te)
			p = append(p, tv)
		}
		pats = append(pats, p)
	}
	body := n.evalBool(x.Body)
	if len(pats) == 0 {
		pats = autoPatterns(vars, body.S)
	}
	if x.Forall {
		return Forall(vars, pats, body)
	}
	return Exists(vars, pats, body)
}

func (env *specEnv) evalField(x SField) (Val, types.Type) {
	vc := env.vc
	v, t := env.eval(x.X)
	if t == nil {
		env.fail("field %s of untyped value", x.Name)
		return IntLit(0), tInt
	}
	obj, path, _ := types.LookupFieldOrMethod(t, true, env.pkgOf(t), x.Name)
	fv, ok := obj.(*types.Var)
	if !ok {
		env.fail("no field %s in %s", x.Name, t)
		return IntLit(0), tInt
	}
	cur := t
	if pt, ok := t.Underlying().(*types.Pointer); ok {
		ref := vc.term(v)
		cur = pt.Elem()
		r, ok := vc.walkRef(env.st, ref, cur, path[:len(path)-1], token.NoPos)
		if !ok {
			env.fail("cannot resolve field path %s", x.Name)
			return IntLit(0), tInt
		}
		owner := vc.ownerAt(cur, path[:len(path)-1])
		return vc.loadField(env.st, owner, path[len(path)-1], r), fv.Type()
	}
	for _, i := range path {
		sv, ok := v.(*StructV)
		if !ok {
			env.fail("field selection on non-struct value")
			return IntLit(0), tInt
		}
		v = sv.F[i]
		cur = structOf(cur).Field(i).Type()
		if pt, ok := cur.Underlying().(*types.Pointer); ok && i != path[len(path)-1] {
			v = vc.loadStruct(env.st, pt.Elem(), vc.term(v))
			cur = pt.Elem()
		}
	}
	return v, fv.Type()
}

func (env *specEnv) pkgOf(t types.Type) *types.Package {
	for {
		switch u := t.(type) {
		case *types.Pointer:
			t = u.Elem()
			continue
		case *types.Named:
			return u.Obj().Pkg()
		}
		return env.pkg
	}
}

func (env *specEnv) evalIndex(x SIndex) (Val, types.Type) {
	vc := env.vc
	sv, t := env.eval(x.X)
	i, _ := env.evalTerm(x.I)
	if t == nil {
		env.fail("index of untyped value")
		return IntLit(0), tInt
	}
	if isSeq(t) {
		return Select(vc.term(sv), i), t.(*types.Array).Elem()
	}
	if ha, ok := t.(*types.Array); ok && ha.Len() == -2 {
		return Select(vc.term(sv), i), types.NewArray(ha.Elem(), -1)
	}
	switch u := t.Underlying().(type) {
	case *types.Slice:
		s := vc.term(sv)
		return vc.loadElem(env.st, u.Elem(), s, i), u.Elem()
	case *types.Basic:
		s := vc.term(sv)
		return vc.rd("E:str", vc.strHeap(), s, i), types.Typ[types.Uint8]
	case *types.Array:
		return Select(vc.term(sv), i), u.Elem()
	}
	env.fail("cannot index %s", t)
	return IntLit(0), tInt
}

func (env *specEnv) evalCall(x SCall) (Val, types.Type) {
	vc := env.vc
	arg := func(i int) (Term, types.Type) {
		if i >= len(x.Args) {
			env.fail("%s: missing argument %d", x.Fun, i)
			return IntLit(0), tInt
		}
		return env.evalTerm(x.Args[i])
	}
	switch x.Fun {
	case "len":
		s, t := arg(0)
		if isSeq(t) {
			env.fail("len of seq")
		}
		return SLen(s), tInt
	case "cap":
		s, _ := arg(0)
		return SCap(s), tInt
	case "base":
		s, _ := arg(0)
		return SBase(s), tInt
	case "off":
		s, _ := arg(0)
		return SOff(s), tInt
	case "old":
		if len(x.Args) != 1 {
			env.fail("old takes one argument")
			return IntLit(0), tInt
		}
		return env.inOld().eval(x.Args[0])
	case "cells":
		// inner array of the slice's backing store in the current heap
		s, t := arg(0)
		var elem types.Type
		switch u := t.Underlying().(type) {
		case *types.Slice:
			elem = u.Elem()
		case *types.Basic:
			return Select(vc.strHeap(), SBase(s)), types.NewArray(types.Typ[types.Uint8], -1)
		default:
			env.fail("cells of non-slice")
			return IntLit(0), tInt
		}
		if structOf(elem) != nil {
			env.fail("cells of struct slice")
			return IntLit(0), tInt
		}
		h := vc.heap(env.st, vc.elemKey(elem), HeapSort(vc.sortOf(elem)))
		return Select(h, SBase(s)), types.NewArray(elem, -1)
	case "heapfor":
		// heapfor("T"): the current heap holding the cells of slices with element type T
		str, ok := x.Args[0].(SStr)
		if !ok {
			env.fail("heapfor needs a string literal type")
			return IntLit(0), tInt
		}
		elem := env.resolveType(str.Val)
		if elem == nil || structOf(elem) != nil {
			env.fail("heapfor: bad element type %s", str.Val)
			return IntLit(0), tInt
		}
		h := vc.heap(env.st, vc.elemKey(elem), HeapSort(vc.sortOf(elem)))
		return h, types.NewArray(elem, -2)
	case "rdin":
		// rdin(h, s, i): cell i of slice s read in the explicitly given heap h (a clean quantifier trigger)
		h, ht := arg(0)
		sl, _ := arg(1)
		i, _ := arg(2)
		ha, ok := ht.(*types.Array)
		if !ok || ha.Len() != -2 {
			env.fail("rdin: first argument must be a heap")
			return IntLit(0), tInt
		}
		return vc.rd(vc.elemKey(ha.Elem()), h, sl, i), ha.Elem()
	case "cellsIn":
		h, ht := arg(0)
		sl, _ := arg(1)
		ha, ok := ht.(*types.Array)
		if !ok || ha.Len() != -2 {
			env.fail("cellsIn: first argument must be a heap")
			return IntLit(0), tInt
		}
		return Select(h, SBase(sl)), types.NewArray(ha.Elem(), -1)
	case "fresh":
		v, t := arg(0)
		if env.allocB.S == "" {
			env.fail("fresh() is not meaningful here")
			return True, tBool
		}
		switch v.Sort {
		case SSlice:
			return Ge(SBase(v), env.allocB), tBool
		case SIface:
			return Ge(IVal(v), env.allocB), tBool
		}
		_ = t
		return Ge(v, env.allocB), tBool
	case "istype":
		v, _ := arg(0)
		id, ok := x.Args[1].(SIdent)
		tn := ""
		if ok {
			tn = id.Name
		} else if f, ok := x.Args[1].(SField); ok {
			if id, ok := f.X.(SIdent); ok {
				tn = id.Name + "." + f.Name
			}
		} else if u, ok := x.Args[1].(SUn); ok && u.Op == "-" {
			_ = u
		}
		ptr := false
		if strings.HasPrefix(tn, "ptr_") {
			ptr = true
			tn = tn[4:]
		}
		t := env.resolveType(tn)
		if t == nil {
			env.fail("istype: unknown type %s", tn)
			return True, tBool
		}
		if ptr {
			t = types.NewPointer(t)
		}
		return vc.hasDynType(v, t), tBool
	case "unbox":
		// unbox(x, T): payload of interface x as T (ptr_T for *T)
		v, _ := arg(0)
		tn := ""
		if id, ok := x.Args[1].(SIdent); ok {
			tn = id.Name
		} else if f, ok := x.Args[1].(SField); ok {
			if id, ok := f.X.(SIdent); ok {
				tn = id.Name + "." + f.Name
			}
		}
		ptr := false
		if strings.HasPrefix(tn, "ptr_") {
			ptr = true
			tn = tn[4:]
		}
		t := env.resolveType(tn)
		if t == nil {
			env.fail("unbox: unknown type %s", tn)
			return IntLit(0), tInt
		}
		if ptr {
			t = types.NewPointer(t)
		}
		return vc.fromIface(env.st, v, t), t
	case "tag":
		v, _ := arg(0)
		return ITag(v), tInt
	case "abs":
		v, t := arg(0)
		zero := vc.zeroOfSort(v.Sort)
		return Ite(Ge(v, zero), v, App(v.Sort, "-", v)), t
	case "min", "max":
		a, t := arg(0)
		b, _ := arg(1)
		a, b = env.unify(a, b)
		if x.Fun == "min" {
			return Ite(Le(a, b), a, b), t
		}
		return Ite(Ge(a, b), a, b), t
	case "real":
		a, _ := arg(0)
		return vc.toFloat(a), tFloat
	case "sqrt":
		a, _ := arg(0)
		return vc.sqrtTerm(nil, a), tFloat
	case "feq":
		// Go's == on float64 (IEEE: NaN unequal to itself, -0 == +0); the spec's == is identity
		a, _ := arg(0)
		b, _ := arg(1)
		return vc.floatBin(token.EQL, vc.toFloat(a), vc.toFloat(b)), tBool
	case "streq":
		// Go string equality (contents)
		a, _ := arg(0)
		b, _ := arg(1)
		return vc.strEq(a, b), tBool
	case "sameslice":
		a, _ := arg(0)
		b, _ := arg(1)
		return Eq(a, b), tBool
	case "allocated":
		v, _ := arg(0)
		a := env.st.alloc
		if v.Sort == SSlice {
			return Lt(SBase(v), a), tBool
		}
		return Lt(v, a), tBool
	}
	// conversion to a named type: T(x)
	if t := env.resolveType(x.Fun); t != nil && len(x.Args) == 1 {
		v, vt := env.eval(x.Args[0])
		if tm, ok := v.(Term); ok {
			if isFloat(t) && tm.Sort == SInt {
				return vc.toFloat(tm), t
			}
			_ = vt
			return tm, t
		}
		return v, t
	}
	// ghost function
	if g, ok := vc.P.Specs.Ghosts[x.Fun]; ok {
		return env.callGhost(g, x)
	}
	// method call on a value: recv.Method(args) evaluated by symbolic inlining
	if i := strings.LastIndex(x.Fun, "."); i > 0 {
		rn, mn := x.Fun[:i], x.Fun[i+1:]
		if rv, rt, ok := env.lookup(rn); ok {
			return env.callGoMethod(rv, rt, mn, x.Args)
		}
	}
	// plain Go function of the package
	if env.pkg != nil {
		if fo, ok := env.pkg.Scope().Lookup(x.Fun).(*types.Func); ok {
			return env.callGoFunc(fo, nil, x.Args)
		}
	}
	env.fail("unknown function %s", x.Fun)
	return IntLit(0), tInt
}

func (env *specEnv) callGoMethod(rv Val, rt types.Type, name string, args []SExpr) (Val, types.Type) {
	obj, _, _ := types.LookupFieldOrMethod(rt, true, env.pkgOf(rt), name)
	fo, ok := obj.(*types.Func)
	if !ok {
		env.fail("no method %s on %s", name, rt)
		return IntLit(0), tInt
	}
	return env.callGoFunc(fo, rv, args)
}

// callGoFunc evaluates a (pure, loop-free) Go function symbolically inside a spec.
func (env *specEnv) callGoFunc(fo *types.Func, recv Val, args []SExpr) (Val, types.Type) {
	vc := env.vc
	fi, ok := vc.P.ByObj[fo]
	sig := fo.Type().(*types.Signature)
	var resT types.Type = tInt
	if sig.Results().Len() == 1 {
		resT = sig.Results().At(0).Type()
	} else if sig.Results().Len() > 1 {
		resT = sig.Results()
	}
	if !ok {
		env.fail("cannot evaluate external function %s in spec", fo.Name())
		return IntLit(0), resT
	}
	var avs []Val
	for _, a := range args {
		v, _ := env.eval(a)
		avs = append(avs, v)
	}
	if env.depth > 6 {
		env.fail("spec call depth exceeded")
		return IntLit(0), resT
	}
	// evaluate on a scratch state with obligations suppressed
	scratch := env.st.clone()
	scratch.pc = True
	savedNo, savedFrm := vc.noSafety, vc.checkFrm
	savedObl := len(vc.Obls)
	vc.noSafety, vc.checkFrm = true, false
	res := vc.inlineCall(scratch, fi, recv, avs, token.NoPos, true)
	vc.noSafety, vc.checkFrm = savedNo, savedFrm
	vc.Obls = vc.Obls[:savedObl]
	return res, resT
}

func (env *specEnv) callGhost(g *GhostFunc, x SCall) (Val, types.Type) {
	vc := env.vc
	if len(x.Args) != len(g.Params) {
		env.fail("ghost %s: want %d args, got %d", g.Name, len(g.Params), len(x.Args))
		return IntLit(0), tInt
	}
	genv := &specEnv{vc: vc, st: env.st, old: env.old, pkg: vc.pkgByPath(g.Pkg), allocB: env.allocB, depth: env.depth + 1, names: map[string]binding{}, fuel: env.fuel}
	resT := genv.resolveType(g.Result)
	if resT == nil {
		env.fail("ghost %s: unknown result type %s", g.Name, g.Result)
		resT = tInt
	}
	var avals []Val
	var atypes []types.Type
	for i, a := range x.Args {
		v, vt := env.eval(a)
		pt := genv.resolveType(g.Params[i].Type)
		if pt == nil {
			env.fail("ghost %s: unknown param type %s", g.Name, g.Params[i].Type)
			pt = vt
		}
		if tm, ok := v.(Term); ok {
			want := vc.sortOf(pt)
			if tm.Sort == SInt && (want == SReal || want == SF64) {
				v = vc.toFloat(tm)
			}
		}
		avals = append(avals, v)
		atypes = append(atypes, pt)
	}
	recursive := g.Body == nil || g.Opaque || ghostIsRecursive(g)
	if !recursive {
		if env.depth > 24 {
			env.fail("ghost expansion too deep in %s", g.Name)
			return IntLit(0), resT
		}
		for i, p := range g.Params {
			genv.names[p.Name] = binding{avals[i], atypes[i]}
		}
		return genv.eval(g.Body)
	}
	// uninterpreted function with definitional axiom (two levels of unfolding fuel)
	fn := "g!" + g.Name
	if env.fuel != nil {
		if sym, ok := env.fuel[g.Name]; ok {
			fn = sym
		}
	}
	var sorts []Sort
	var ats []Term
	for i := range g.Params {
		t, ok := avals[i].(Term)
		if !ok {
			// a struct value handed to an UNINTERPRETED ghost is passed field by field
			if sv, isS := avals[i].(*StructV); isS && g.Body == nil {
				leaves, okL := flattenStruct(sv)
				if okL {
					for _, lf := range leaves {
						sorts = append(sorts, lf.Sort)
						ats = append(ats, lf)
					}
					continue
				}
			}
			env.fail("ghost %s: struct argument to recursive ghost", g.Name)
			return IntLit(0), resT
		}
		sorts = append(sorts, vc.sortOf(atypes[i]))
		ats = append(ats, t)
	}
	rs := vc.sortOf(resT)
	if !vc.usedGhost[g.Name] {
		vc.usedGhost[g.Name] = true
		top, mid, bot := "g!"+g.Name, "g!"+g.Name+"!1", "g!"+g.Name+"!0"
		vc.declFun(top, sorts, rs)
		defer vc.emitAxiomsFor(g.Name, genv.pkg)
		if g.Body != nil {
			vc.declFun(mid, sorts, rs)
			vc.declFun(bot, sorts, rs)
			for _, lv := range [][2]string{{top, mid}, {mid, bot}} {
				aenv := &specEnv{vc: vc, st: &State{pc: True, vars: map[*types.Var]Val{}, heaps: map[string]Term{}, alloc: Term{"alloc0", SInt}}, pkg: genv.pkg, names: map[string]binding{}, depth: env.depth + 1,
					fuel: map[string]string{g.Name: lv[1]}}
				var bvs []Term
				for i, p := range g.Params {
					bv := Term{p.Name + "?", sorts[i]}
					bvs = append(bvs, bv)
					aenv.names[p.Name] = binding{bv, atypes[i]}
				}
				body, _ := aenv.evalTerm(g.Body)
				app := App(rs, lv[0], bvs...)
				vc.assumeAxiom(Forall(bvs, [][]Term{{app}}, And(Eq(app, body), Eq(app, App(rs, lv[1], bvs...)))), lv[0])
			}
		}
	}
	return App(rs, fn, ats...), resT
}

func ghostIsRecursive(g *GhostFunc) bool {
	found := false
	var walk func(e SExpr)
	walk = func(e SExpr) {
		switch x := e.(type) {
		case SCall:
			if x.Fun == g.Name {
				found = true
			}
			for _, a := range x.Args {
				walk(a)
			}
		case SBin:
			walk(x.L)
			walk(x.R)
		case SUn:
			walk(x.X)
		case SCond:
			walk(x.C)
			walk(x.A)
			walk(x.B)
		case SQuant:
			walk(x.Body)
		case SLet:
			walk(x.Val)
			walk(x.Body)
		case SIndex:
			walk(x.X)
			walk(x.I)
		case SField:
			walk(x.X)
		case SSliceE:
			walk(x.X)
			if x.Lo != nil {
				walk(x.Lo)
			}
			if x.Hi != nil {
				walk(x.Hi)
			}
		}
	}
	if g.Body != nil {
		walk(g.Body)
	}
	return found
}

func (vc *VC) pkgByPath(path string) *types.Package {
	if pk, ok := vc.P.Pkgs[path]; ok {
		return pk.Types
	}
	return nil
}

// sqrtTerm models math.Sqrt over the reals: an uninterpreted function constrained at each use.
func (vc *VC) sqrtTerm(st *State, a Term) Term {
	if vc.Mode == "opaque" {
		vc.declFun("fsqrt", []Sort{SF64}, SF64)
		return App(SF64, "fsqrt", a)
	}
	vc.declFun("sqrt", []Sort{SReal}, SReal)
	if !vc.declSet["sqrt!ax"] {
		vc.declSet["sqrt!ax"] = true
		x := Term{"x?", SReal}
		sx := App(SReal, "sqrt", x)
		vc.assumeAxiom(Forall([]Term{x}, [][]Term{{sx}}, Implies(Ge(x, Term{"0.0", SReal}), And(Ge(sx, Term{"0.0", SReal}), Eq(Mul(sx, sx), x)))), "direct:sqrt")
	}
	return App(SReal, "sqrt", a)
}

// ---------------------------------------------------------------------------
// clause helpers used by the executor

func (vc *VC) envFor(fr *frame, st, old *State, extra map[string]binding) *specEnv {
	if old == nil && fr != nil {
		old = vc.oldState()
	}
	env := &specEnv{vc: vc, st: st, old: old, names: map[string]binding{}, fr: fr, allocB: vc.alloc0}
	if fr != nil {
		env.pkg = fr.ctx.pkg
		env.pos = fr.specPos
	}
	for k, v := range extra {
		env.names[k] = v
	}
	return env
}

func (vc *VC) evalClause(fr *frame, st, old *State, cl Clause, extra map[string]binding) Term {
	env := vc.envFor(fr, st, old, extra)
	return env.evalBool(cl.Expr)
}

func (vc *VC) evalSpec(fr *frame, st, old *State, e SExpr, extra map[string]binding) Val {
	env := vc.envFor(fr, st, old, extra)
	v, _ := env.eval(e)
	return v
}

// evalModifies evaluates modifies location sets in state st.
func (vc *VC) evalModifies(fr *frame, st *State, cls []Clause, extra map[string]binding) []modLoc {
	env := vc.envFor(fr, st, nil, extra)
	return env.modLocs(cls)
}

func (env *specEnv) modLocs(cls []Clause) []modLoc {
	vc := env.vc
	var out []modLoc
	for _, cl := range cls {
		e := cl.Expr
		spare := false
		hdr := false
		if c, ok := e.(SCall); ok && (c.Fun == "spare" || c.Fun == "hdr") && len(c.Args) == 1 {
			spare = c.Fun == "spare"
			hdr = c.Fun == "hdr"
			e = c.Args[0]
		}
		if c, ok := e.(SCall); ok && c.Fun == "pointee" && len(c.Args) == 1 {
			// pointee(v): whatever the pointer boxed in interface value v points to (any type)
			iv, _ := env.evalTerm(c.Args[0])
			ref := iv
			if iv.Sort == SIface {
				ref = IVal(iv)
			}
			for _, k := range sortedKeys(vc.heapSort) {
				if strings.HasPrefix(k, "P:") || strings.HasPrefix(k, "F:") {
					out = append(out, modLoc{heap: k, base: ref, field: true})
				}
			}
			continue
		}
		if u, ok := e.(SUn); ok && u.Op == "*" {
			e = u.X
			hdr = true
		}
		v, t := env.eval(e)
		if t == nil {
			env.fail("modifies: untyped location %s", cl.Text)
			continue
		}
		switch u := t.Underlying().(type) {
		case *types.Slice:
			if hdr {
				env.fail("modifies hdr() of a slice value is not a location; name the owner with *p")
				continue
			}
			s := vc.term(v)
			lo, hi := SOff(s), Add(SOff(s), SLen(s))
			if spare {
				lo, hi = Add(SOff(s), SLen(s)), Add(SOff(s), SCap(s))
			}
			for _, lf := range vc.leaves(vc.elemKey(u.Elem()), u.Elem()) {
				vc.heap(env.st, lf.key, HeapSort(lf.sort))
				out = append(out, modLoc{heap: lf.key, base: SBase(s), lo: lo, hi: hi})
			}
		case *types.Pointer:
			ref := vc.term(v)
			out = append(out, vc.structLocs(u.Elem(), ref)...)
		default:
			env.fail("modifies: unsupported location type %s", t)
		}
	}
	return out
}

func (vc *VC) structLocs(t types.Type, ref Term) []modLoc {
	var out []modLoc
	s := structOf(t)
	if s == nil {
		return []modLoc{{heap: "P:" + typeKey(t), base: ref, field: true}}
	}
	for i := 0; i < s.NumFields(); i++ {
		f := s.Field(i)
		if structOf(f.Type()) != nil {
			out = append(out, vc.structLocs(f.Type(), vc.subRef(t, i, ref))...)
			continue
		}
		out = append(out, modLoc{heap: fieldHeapKey(t, f), base: ref, field: true})
	}
	return out
}

var _ = fmt.Sprintf

// emitAxiomsFor adds the trusted axioms that mention ghost function name (once per VC).
func (vc *VC) emitAxiomsFor(name string, pkg *types.Package) {
	for _, ax := range vc.P.Specs.Axioms {
		if vc.usedGhost["axiom:"+ax.Name] {
			continue
		}
		if !containsWord(ax.Cl.Text, name+"(") {
			continue
		}
		vc.usedGhost["axiom:"+ax.Name] = true
		vc.Trusted["axiom:"+ax.Name+" ("+ax.Cl.Text+")"] = true
		env := &specEnv{vc: vc, st: &State{pc: True, vars: map[*types.Var]Val{}, heaps: map[string]Term{}, alloc: Term{"alloc0", SInt}}, pkg: vc.pkgByPath(ax.Pkg), names: map[string]binding{}}
		vc.assumeAxiom(env.evalBool(ax.Cl.Expr), "g!"+name)
	}
}

// flattenStruct lists the scalar leaves of a struct value in field order.
func flattenStruct(sv *StructV) ([]Term, bool) {
	var out []Term
	for _, f := range sv.F {
		switch x := f.(type) {
		case Term:
			out = append(out, x)
		case *StructV:
			sub, ok := flattenStruct(x)
			if !ok {
				return nil, false
			}
			out = append(out, sub...)
		default:
			return nil, false
		}
	}
	return out, true
}
