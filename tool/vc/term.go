package vc

import (
	"fmt"
	"math/big"
	"strings"
)

// Sort is an SMT-LIB sort rendered as text.
type Sort string

const (
	SInt   Sort = "Int"
	SReal  Sort = "Real"
	SBool  Sort = "Bool"
	SF64   Sort = "F64"
	SSlice Sort = "Slice"
	SIface Sort = "Iface"
	SPBox  Sort = "PBox" // a local scalar/slice variable whose address was taken: the term is the identity of its heap cell
	SBox   Sort = "Box"  // a local fixed-size array that has been sliced: the term is the identity of its heap array
)

func ArrSort(elem Sort) Sort  { return Sort("(Array Int " + string(elem) + ")") }
func HeapSort(elem Sort) Sort { return ArrSort(ArrSort(elem)) }

// Term is an SMT-LIB term rendered as text together with its sort.
type Term struct {
	S    string
	Sort Sort
}

func (t Term) String() string { return t.S }

var (
	True  = Term{"true", SBool}
	False = Term{"false", SBool}
)

func App(sort Sort, op string, args ...Term) Term {
	var b strings.Builder
	b.WriteByte('(')
	b.WriteString(op)
	for _, a := range args {
		b.WriteByte(' ')
		b.WriteString(a.S)
	}
	b.WriteByte(')')
	return Term{b.String(), sort}
}

func IntLit(n int64) Term {
	if n < 0 {
		return Term{fmt.Sprintf("(- %d)", -n), SInt}
	}
	return Term{fmt.Sprintf("%d", n), SInt}
}

func BigIntLit(n *big.Int) Term {
	if n.Sign() < 0 {
		return Term{"(- " + new(big.Int).Neg(n).String() + ")", SInt}
	}
	return Term{n.String(), SInt}
}

func RatLit(r *big.Rat) Term {
	neg := r.Sign() < 0
	a := new(big.Rat).Abs(r)
	var s string
	if a.IsInt() {
		s = a.Num().String() + ".0"
	} else {
		s = "(/ " + a.Num().String() + ".0 " + a.Denom().String() + ".0)"
	}
	if neg {
		s = "(- " + s + ")"
	}
	return Term{s, SReal}
}

func And(ts ...Term) Term {
	var keep []Term
	for _, t := range ts {
		if t.S == "true" {
			continue
		}
		if t.S == "false" {
			return False
		}
		keep = append(keep, t)
	}
	switch len(keep) {
	case 0:
		return True
	case 1:
		return keep[0]
	}
	return App(SBool, "and", keep...)
}

func Or(ts ...Term) Term {
	var keep []Term
	for _, t := range ts {
		if t.S == "false" {
			continue
		}
		if t.S == "true" {
			return True
		}
		keep = append(keep, t)
	}
	switch len(keep) {
	case 0:
		return False
	case 1:
		return keep[0]
	}
	return App(SBool, "or", keep...)
}

func Not(t Term) Term {
	switch t.S {
	case "true":
		return False
	case "false":
		return True
	}
	if strings.HasPrefix(t.S, "(not ") {
		return Term{t.S[5 : len(t.S)-1], SBool}
	}
	return App(SBool, "not", t)
}

func Implies(a, b Term) Term {
	if a.S == "true" {
		return b
	}
	if a.S == "false" || b.S == "true" {
		return True
	}
	return App(SBool, "=>", a, b)
}

func Eq(a, b Term) Term {
	if a.S == b.S {
		return True
	}
	return App(SBool, "=", a, b)
}

func Ite(c, a, b Term) Term {
	if c.S == "true" {
		return a
	}
	if c.S == "false" {
		return b
	}
	if a.S == b.S {
		return a
	}
	return App(a.Sort, "ite", c, a, b)
}

func Add(a, b Term) Term { return App(a.Sort, "+", a, b) }
func Sub(a, b Term) Term { return App(a.Sort, "-", a, b) }
func Mul(a, b Term) Term { return App(a.Sort, "*", a, b) }
func Le(a, b Term) Term  { return App(SBool, "<=", a, b) }
func Lt(a, b Term) Term  { return App(SBool, "<", a, b) }
func Ge(a, b Term) Term  { return App(SBool, ">=", a, b) }
func Gt(a, b Term) Term  { return App(SBool, ">", a, b) }

func Select(arr, idx Term) Term {
	s := string(arr.Sort)
	// (Array Int X) -> X
	if !strings.HasPrefix(s, "(Array Int ") {
		panic("select on non-array sort " + s + " term " + arr.S)
	}
	return App(Sort(s[len("(Array Int "):len(s)-1]), "select", arr, idx)
}

func Store(arr, idx, v Term) Term { return App(arr.Sort, "store", arr, idx, v) }

// Slice datatype accessors.
func SBase(s Term) Term { return sliceAcc("s-base", "mk-slice", 0, s) }
func SOff(s Term) Term  { return sliceAcc("s-off", "mk-slice", 1, s) }
func SLen(s Term) Term  { return sliceAcc("s-len", "mk-slice", 2, s) }
func SCap(s Term) Term  { return sliceAcc("s-cap", "mk-slice", 3, s) }

func sliceAcc(acc, ctor string, i int, s Term) Term {
	if strings.HasPrefix(s.S, "("+ctor+" ") {
		parts := splitTop(s.S[len(ctor)+2 : len(s.S)-1])
		if i < len(parts) {
			return Term{parts[i], SInt}
		}
	}
	return App(SInt, acc, s)
}

func MkSlice(base, off, ln, cp Term) Term { return App(SSlice, "mk-slice", base, off, ln, cp) }

var NilSlice = Term{"(mk-slice 0 0 0 0)", SSlice}

func ITag(s Term) Term         { return sliceAcc("i-tag", "mk-iface", 0, s) }
func IVal(s Term) Term         { return sliceAcc("i-val", "mk-iface", 1, s) }
func MkIface(tag, v Term) Term { return App(SIface, "mk-iface", tag, v) }

var NilIface = Term{"(mk-iface 0 0)", SIface}

// splitTop splits a space separated s-expression list at top level.
func splitTop(s string) []string {
	var out []string
	depth := 0
	start := -1
	for i := 0; i < len(s); i++ {
		c := s[i]
		switch {
		case c == '(':
			if depth == 0 && start < 0 {
				start = i
			}
			depth++
		case c == ')':
			depth--
			if depth == 0 {
				out = append(out, s[start:i+1])
				start = -1
			}
		case c == ' ':
			if depth == 0 && start >= 0 {
				out = append(out, s[start:i])
				start = -1
			}
		default:
			if depth == 0 && start < 0 {
				start = i
			}
		}
	}
	if start >= 0 {
		out = append(out, s[start:])
	}
	return out
}

// Forall builds a quantified formula with optional patterns.
func Forall(vars []Term, pats [][]Term, body Term) Term {
	return quant("forall", vars, pats, body)
}

func Exists(vars []Term, pats [][]Term, body Term) Term {
	return quant("exists", vars, pats, body)
}

func quant(q string, vars []Term, pats [][]Term, body Term) Term {
	if len(vars) == 0 {
		return body
	}
	var b strings.Builder
	b.WriteString("(" + q + " (")
	for _, v := range vars {
		fmt.Fprintf(&b, "(%s %s)", v.S, v.Sort)
	}
	b.WriteString(") ")
	if len(pats) > 0 {
		b.WriteString("(! ")
		b.WriteString(body.S)
		for _, p := range pats {
			b.WriteString(" :pattern (")
			for i, t := range p {
				if i > 0 {
					b.WriteByte(' ')
				}
				b.WriteString(t.S)
			}
			b.WriteString(")")
		}
		b.WriteString(")")
	} else {
		b.WriteString(body.S)
	}
	b.WriteString(")")
	return Term{b.String(), SBool}
}

func smtName(s string) string {
	var b strings.Builder
	for _, r := range s {
		switch {
		case r >= 'a' && r <= 'z', r >= 'A' && r <= 'Z', r >= '0' && r <= '9', r == '_', r == '.', r == '$', r == '!':
			b.WriteRune(r)
		default:
			b.WriteByte('_')
		}
	}
	return b.String()
}
