package vc

import (
	"fmt"
	"go/ast"
	"go/token"
	"go/types"
	"math/big"
	"sort"
	"strings"
)

// ---------------------------------------------------------------------------
// values

// Val is a symbolic Go value: Term (scalars, slices, refs, interfaces),
// *StructV (struct rvalues), TupleV (multiple results) or *FuncV.
type Val interface{}

type StructV struct {
	T types.Type // the struct's (possibly named) type
	F []Val      // by field index
}

type TupleV []Val

// ElemPtr is a pointer to a struct element of a slice (&s[i]): the element lives in the per-field element heaps.
type paramSlice struct {
	t   Term
	key string
}

type ElemPtr struct {
	Elem types.Type // struct type of the element
	Key  string     // element heap key prefix (E:<type>)
	Base Term
	Idx  Term // absolute cell index
}

type FuncV struct {
	Lit  *ast.FuncLit
	Fn   *FuncInfo
	Ext  *types.Func // external function without body
	Recv Val         // bound receiver for method values
	Pkg  *pkgCtx
}

// ---------------------------------------------------------------------------
// state

type State struct {
	pc    Term
	vars  map[*types.Var]Val
	heaps map[string]Term
	alloc Term
}

func (s *State) clone() *State {
	n := &State{pc: s.pc, alloc: s.alloc, vars: make(map[*types.Var]Val, len(s.vars)), heaps: make(map[string]Term, len(s.heaps))}
	for k, v := range s.vars {
		n.vars[k] = v
	}
	for k, v := range s.heaps {
		n.heaps[k] = v
	}
	return n
}

// ---------------------------------------------------------------------------
// obligations

type Obligation struct {
	Name   string
	Kind   string
	Func   string
	Where  string
	Desc   string
	NDecl  int
	NFacts int
	PC     Term
	Goal   Term
	// expectation: a canary is expected to be satisfiable
	Canary bool
	// result
	Status      string // unsat | sat | unknown | timeout | error
	Solver      string
	TimeS       float64
	Model       string
	Output      string
	SMTFile     string
	vc          *VC
	Pruned      bool
	triedPruned bool
	triedGround bool
}

type modLoc struct {
	heap   string
	base   Term // array identity (elem heaps) or ref (field heaps)
	lo, hi Term // cell range for elem heaps
	field  bool
}

type pkgCtx struct {
	info *types.Info
	pkg  *types.Package
}

type jumpCollector struct {
	label  string
	states []*State
}

type retState struct {
	st   *State
	vals []Val
}

type frame struct {
	fn       *FuncInfo
	lit      *ast.FuncLit
	ctx      *pkgCtx
	contract *Contract
	breaks   []*jumpCollector
	conts    []*jumpCollector
	returns  []*retState
	results  []*types.Var
	sig      *types.Signature
	loopOrd  map[*ast.ForStmt]int
	rangeOrd map[*ast.RangeStmt]int
	idxVars  map[int]Term // loop ordinal -> hidden index value
	curLoop  []int
	entry    map[string]binding // param entry values (x0)
	inlined  bool
	callOrd  map[string]int
	labelOf  map[ast.Stmt]string
	specPos  token.Pos
	ghosts   map[string]binding
	stmtKey  map[ast.Stmt]string // text key of every statement (for `at stmt[text]:` hints, robust to inserted statements)
	stmtOrd  map[ast.Stmt]int    // source-order ordinal of every statement of the function (for `at stmtN:` hints)
}

type binding struct {
	V Val
	T types.Type
}

// VC generates verification conditions for one top-level function or lemma.
type VC struct {
	P        *Prog
	Fn       *FuncInfo
	Contract *Contract
	Mode     string
	Name     string

	decls         []string
	declSet       map[string]bool
	facts         []string
	nfresh        int
	Obls          []*Obligation
	Errs          []string
	alloc0        Term
	heaps0        map[string]Term
	heapSort      map[string]Sort
	modLocs       []modLoc
	checkFrm      bool
	depth         int
	oblCount      map[string]int
	Trusted       map[string]bool
	Inlined       map[string]bool
	usedGhost     map[string]bool
	ghostOrder    []string
	stack         []string
	noSafety      bool
	CallsContract map[string]bool
	UsedLemmas    map[string]bool
	nbound        int
	factKeys      map[int][]string
	defs          map[string]Term      // named terms introduced by define
	heapDef       map[string]heapStore // structure of named heaps (single-cell stores, fresh arrays)
	freshRefs     map[string]bool      // identities returned by allocRef (pairwise distinct)
	oldVals       map[string]bool      // slice-valued parameters (their arrays were allocated before the call)
	maxDeg        int                  // contract clause `maxdegree N` (real mode): see degOf
	deg           map[string]int       // degree (number of input-derived factors) of float terms built so far
	splitJoins    bool                 // contract clause `nomerge`: branches of if/switch are not joined until the end of the enclosing block
	pendingOuts   []*State
	blockOuts     []*State
	Assumed       []string            // `ensures [assumed-...]` clauses met while verifying (assumptions, not obligations)
	hintName      string              // display name for the obligations of the hint being applied
	hintsSeen     map[string]bool     // `at <label>:` hints of the verified function that were reached
	paramSlices   []paramSlice        // the same, with their element heap (frame facts are instantiated for them)
	subFuncs      []string            // embedded-struct identity functions declared so far
	addrTaken     map[*types.Var]bool // local scalar/slice variables whose address is taken somewhere: boxed at declaration
}

// heapStore records how a named heap was obtained from its predecessor.
type heapStore struct {
	prev  Term
	base  Term
	idx   Term // cell index (absolute) for single-cell stores
	val   Term
	fresh bool // whole array at base replaced by the zero array
	zero  Term
}

func NewVC(p *Prog, name string, mode string) *VC {
	if mode == "" {
		mode = "opaque"
	}
	return &VC{P: p, Name: name, Mode: mode, declSet: map[string]bool{}, heaps0: map[string]Term{}, heapSort: map[string]Sort{},
		oblCount: map[string]int{}, Trusted: map[string]bool{}, Inlined: map[string]bool{}, usedGhost: map[string]bool{}, CallsContract: map[string]bool{}}
}

func (vc *VC) errorf(pos token.Pos, f string, a ...interface{}) {
	w := ""
	if pos.IsValid() {
		p := vc.P.Fset.Position(pos)
		w = fmt.Sprintf("%s:%d: ", shortFile(p.Filename), p.Line)
	}
	msg := w + fmt.Sprintf(f, a...)
	for _, e := range vc.Errs {
		if e == msg {
			return
		}
	}
	vc.Errs = append(vc.Errs, msg)
}

func shortFile(f string) string {
	return strings.TrimPrefix(f, "/repo/")
}

func (vc *VC) floatSort() Sort {
	if vc.Mode == "opaque" {
		return SF64
	}
	return SReal
}

func (vc *VC) declare(name string, line string) {
	if vc.declSet[name] {
		return
	}
	vc.declSet[name] = true
	vc.decls = append(vc.decls, line)
}

func (vc *VC) declConst(name string, s Sort) Term {
	decl := s
	if s == SPBox || s == SBox {
		// identities of boxed locals are references (integers) in the queries
		decl = SInt
	}
	vc.declare(name, fmt.Sprintf("(declare-const %s %s)", name, decl))
	return Term{name, s}
}

func (vc *VC) declFun(name string, args []Sort, res Sort) {
	as := make([]string, len(args))
	for i, a := range args {
		as[i] = string(a)
	}
	vc.declare(name, fmt.Sprintf("(declare-fun %s (%s) %s)", name, strings.Join(as, " "), res))
}

func (vc *VC) fresh(prefix string, s Sort) Term {
	vc.nfresh++
	return vc.declConst(fmt.Sprintf("%s!%d", smtName(prefix), vc.nfresh), s)
}

func (vc *VC) assume(st *State, fact Term) {
	if fact.S == "true" {
		return
	}
	vc.facts = append(vc.facts, Implies(st.pc, fact).S)
}

func (vc *VC) assumeGlobal(fact Term) {
	if fact.S == "true" {
		return
	}
	vc.facts = append(vc.facts, fact.S)
}

// assumeAxiom records a definitional axiom / auto lemma keyed by the function symbols that make
// it relevant. Such facts are only included in a query when one of their keys occurs in the goal
// (transitively through other included axioms); omitting hypotheses is always sound.
func (vc *VC) assumeAxiom(fact Term, keys ...string) {
	if fact.S == "true" {
		return
	}
	if vc.factKeys == nil {
		vc.factKeys = map[int][]string{}
	}
	vc.factKeys[len(vc.facts)] = keys
	vc.facts = append(vc.facts, fact.S)
}

// define introduces a named constant equal to t (keeps terms small).
func (vc *VC) define(prefix string, t Term) Term {
	if len(t.S) < 24 {
		return t
	}
	c := vc.fresh(prefix, t.Sort)
	vc.assumeGlobal(Eq(c, t))
	if vc.defs == nil {
		vc.defs = map[string]Term{}
	}
	vc.defs[c.S] = t
	if d, ok := vc.deg[t.S]; ok {
		vc.deg[c.S] = d
	}
	return c
}

func (vc *VC) where(pos token.Pos) string {
	if !pos.IsValid() {
		return ""
	}
	p := vc.P.Fset.Position(pos)
	return fmt.Sprintf("%s:%d", shortFile(p.Filename), p.Line)
}

func (vc *VC) oblige(st *State, kind, label string, pos token.Pos, goal Term, desc string) *Obligation {
	if goal.S == "true" {
		// trivially true: still counted as discharged obligation? skip to keep counts honest
		return nil
	}
	if st.pc.S == "false" {
		return nil
	}
	fn := vc.Name
	base := fn + "/" + kind
	if label != "" {
		base += "#" + label
	}
	vc.oblCount[base]++
	name := base
	if label == "" {
		name = fmt.Sprintf("%s#%d", base, vc.oblCount[base])
	} else if vc.oblCount[base] > 1 {
		name = fmt.Sprintf("%s.%d", base, vc.oblCount[base])
	}
	o := &Obligation{Name: name, Kind: kind, Func: fn, Where: vc.where(pos), Desc: desc, NDecl: len(vc.decls), NFacts: len(vc.facts), PC: st.pc, Goal: goal, vc: vc}
	vc.Obls = append(vc.Obls, o)
	if kind == "safety" || kind == "pre@call" || kind == "lemma-pre" {
		// execution continues only if the check passed
		vc.assume(st, goal)
	}
	return o
}

// newPC returns a named path condition pc ∧ c.
func (vc *VC) newPC(st *State, c Term) Term {
	t := And(st.pc, c)
	if len(t.S) < 40 {
		return t
	}
	n := vc.fresh("pc", SBool)
	vc.assumeGlobal(Eq(n, t))
	return n
}

// ---------------------------------------------------------------------------
// types → sorts

func isFloat(t types.Type) bool {
	b, ok := t.Underlying().(*types.Basic)
	return ok && b.Info()&types.IsFloat != 0
}
func isInteger(t types.Type) bool {
	b, ok := t.Underlying().(*types.Basic)
	return ok && b.Info()&types.IsInteger != 0
}
func isString(t types.Type) bool {
	b, ok := t.Underlying().(*types.Basic)
	return ok && b.Info()&types.IsString != 0
}
func isBoolean(t types.Type) bool {
	b, ok := t.Underlying().(*types.Basic)
	return ok && b.Info()&types.IsBoolean != 0
}
func isSeq(t types.Type) bool {
	a, ok := t.(*types.Array)
	return ok && a.Len() == -1
}

func structOf(t types.Type) *types.Struct {
	s, _ := t.Underlying().(*types.Struct)
	return s
}

// sortOf gives the SMT sort of a scalar-represented Go type ("" for structs).
func (vc *VC) sortOf(t types.Type) Sort {
	if isSeq(t) {
		return ArrSort(vc.sortOf(t.(*types.Array).Elem()))
	}
	if a, ok := t.(*types.Array); ok && a.Len() == -2 {
		return HeapSort(vc.sortOf(a.Elem()))
	}
	switch u := t.Underlying().(type) {
	case *types.Basic:
		switch {
		case u.Info()&types.IsInteger != 0:
			return SInt
		case u.Info()&types.IsFloat != 0:
			return vc.floatSort()
		case u.Info()&types.IsBoolean != 0:
			return SBool
		case u.Info()&types.IsString != 0:
			return SSlice
		case u.Kind() == types.UntypedNil:
			return SInt
		case u.Kind() == types.UnsafePointer:
			return SInt
		}
	case *types.Slice:
		return SSlice
	case *types.Pointer, *types.Map, *types.Chan, *types.Signature:
		return SInt
	case *types.Interface:
		return SIface
	case *types.Array:
		return ArrSort(vc.sortOf(u.Elem()))
	case *types.Struct:
		return ""
	case *types.Tuple:
		return ""
	}
	return SInt
}

func typeKey(t types.Type) string {
	switch u := t.(type) {
	case *types.Named:
		if _, ok := u.Underlying().(*types.Struct); ok {
			p := ""
			if u.Obj().Pkg() != nil {
				p = pkgBase(u.Obj().Pkg().Path()) + "."
			}
			return p + u.Obj().Name()
		}
		if _, ok := u.Underlying().(*types.Interface); ok {
			return "iface"
		}
		return typeKey(u.Underlying())
	case *types.Alias:
		return typeKey(types.Unalias(u))
	case *types.Basic:
		switch {
		case u.Info()&types.IsFloat != 0:
			return "f64"
		case u.Info()&types.IsString != 0:
			return "string" // ("E:str" is the heap of string bytes)
		case u.Info()&types.IsBoolean != 0:
			return "bool"
		case u.Kind() == types.Uint8:
			return "u8"
		case u.Info()&types.IsInteger != 0:
			return "int"
		}
		return u.Name()
	case *types.Slice:
		return "sl<" + typeKey(u.Elem()) + ">"
	case *types.Pointer:
		return "ptr"
	case *types.Interface:
		return "iface"
	case *types.Struct:
		return "anonstruct"
	case *types.Array:
		return "arr<" + typeKey(u.Elem()) + ">"
	case *types.Map:
		return "map"
	case *types.Signature:
		return "func"
	}
	return "other"
}

// heap access ---------------------------------------------------------------

func (vc *VC) heap(st *State, key string, sort Sort) Term {
	if h, ok := st.heaps[key]; ok {
		return h
	}
	h0, ok := vc.heaps0[key]
	if !ok {
		h0 = vc.declConst("H0!"+smtName(key), sort)
		vc.heaps0[key] = h0
		vc.heapSort[key] = sort
		vc.heapInvariant(h0, Term{"alloc0", SInt}, True)
		vc.heapRange(key, h0, True)
	}
	return h0
}

func (vc *VC) setHeap(st *State, key string, h Term) {
	prev, hasPrev := st.heaps[key]
	if !hasPrev {
		prev, hasPrev = vc.heaps0[key]
	}
	if len(h.S) > 40 {
		n := vc.fresh("H!"+key, h.Sort)
		vc.assumeGlobal(Eq(n, h))
		h = n
	}
	st.heaps[key] = h
	if hasPrev {
		vc.linkHeaps(key, h, prev)
		if vc.Contract != nil && vc.Contract.StoreLinks {
			vc.linkHeapsBack(key, h, prev)
		}
	}
}

// linkHeaps emits the term-introduction fact: whenever a read rd(newH, s, i) occurs, the read
// of the same cell in the predecessor heap is made available to the solver (a tautology given
// rd's definition; it lets quantified facts stated over the older heap be instantiated).
func (vc *VC) linkHeaps(key string, newH, prev Term) {
	if !isHeapSort(newH.Sort) || newH.S == prev.S || strings.HasPrefix(newH.S, "(") {
		return
	}
	inner := Sort(string(newH.Sort)[len("(Array Int (Array Int ") : len(newH.Sort)-2])
	fn := "rd!" + smtName(key)
	if !vc.declSet[fn] {
		// make sure rd is declared
		vc.rd(key, newH, Term{"(mk-slice 0 0 0 0)", SSlice}, IntLit(0))
	}
	ss, ii := Term{"s?", SSlice}, Term{"i?", SInt}
	vc.assumeGlobal(Forall([]Term{ss, ii}, [][]Term{{App(inner, fn, newH, ss, ii)}},
		Eq(App(inner, fn, prev, ss, ii), Select(Select(prev, SBase(ss)), Add(SOff(ss), ii)))))
}

// linkHeapsBack is the converse term introduction for heaps havocked by a call: a read in the
// heap before the call makes the read of the same cell after the call available, so that facts
// quantified over the post-call heap can be instantiated at cells named in the pre-call heap.
func (vc *VC) linkHeapsBack(key string, newH, prev Term) {
	if !isHeapSort(newH.Sort) || newH.S == prev.S || strings.HasPrefix(newH.S, "(") || strings.HasPrefix(prev.S, "(") {
		return
	}
	inner := Sort(string(newH.Sort)[len("(Array Int (Array Int ") : len(newH.Sort)-2])
	fn := "rd!" + smtName(key)
	ss, ii := Term{"s?", SSlice}, Term{"i?", SInt}
	vc.assumeGlobal(Forall([]Term{ss, ii}, [][]Term{{App(inner, fn, prev, ss, ii)}},
		Eq(App(inner, fn, newH, ss, ii), Select(Select(newH, SBase(ss)), Add(SOff(ss), ii)))))
}

// heapInvariant asserts the typing invariant of a heap: slices stored in it are
// well formed and every identity stored is already allocated.
// heapRange asserts the value range of the cells of byte arrays.
func (vc *VC) heapRange(key string, h Term, pc Term) {
	if key != "E:u8" || h.Sort != HeapSort(SInt) {
		return
	}
	b, i := Term{"b?", SInt}, Term{"i?", SInt}
	cell := Select(Select(h, b), i)
	vc.assumeGlobal(Implies(pc, Forall([]Term{b, i}, [][]Term{{cell}}, And(Le(IntLit(0), cell), Le(cell, IntLit(255))))))
}

func (vc *VC) heapInvariant(h Term, alloc Term, pc Term) {
	switch h.Sort {
	case HeapSort(SSlice):
		b, i := Term{"b?", SInt}, Term{"i?", SInt}
		cell := Select(Select(h, b), i)
		vc.assumeGlobal(Implies(pc, Forall([]Term{b, i}, [][]Term{{cell}}, And(vc.sliceOK(cell), Lt(SBase(cell), alloc)))))
	case ArrSort(SSlice):
		r := Term{"r?", SInt}
		cell := Select(h, r)
		vc.assumeGlobal(Implies(pc, Forall([]Term{r}, [][]Term{{cell}}, And(vc.sliceOK(cell), Lt(SBase(cell), alloc)))))
	case HeapSort(SIface):
		b, i := Term{"b?", SInt}, Term{"i?", SInt}
		cell := Select(Select(h, b), i)
		vc.assumeGlobal(Implies(pc, Forall([]Term{b, i}, [][]Term{{cell}}, And(Lt(IVal(cell), alloc), Ge(ITag(cell), IntLit(0)), Implies(Eq(ITag(cell), IntLit(0)), Eq(IVal(cell), IntLit(0)))))))
	case ArrSort(SIface):
		r := Term{"r?", SInt}
		cell := Select(h, r)
		vc.assumeGlobal(Implies(pc, Forall([]Term{r}, [][]Term{{cell}}, And(Lt(IVal(cell), alloc), Ge(ITag(cell), IntLit(0)), Implies(Eq(ITag(cell), IntLit(0)), Eq(IVal(cell), IntLit(0)))))))
	}
}

func (vc *VC) sliceOK(s Term) Term {
	return App(SBool, "slice-ok", s)
}

// elemHeapKeys: for slice element type t returns the leaf heaps (one for scalars,
// one per leaf field for structs).
type leaf struct {
	key  string
	sort Sort
	typ  types.Type
	path []int
}

func (vc *VC) leaves(prefix string, t types.Type) []leaf {
	if s := structOf(t); s != nil {
		var out []leaf
		for i := 0; i < s.NumFields(); i++ {
			f := s.Field(i)
			sub := vc.leaves(prefix+"."+f.Name(), f.Type())
			for _, l := range sub {
				l.path = append([]int{i}, l.path...)
				out = append(out, l)
			}
		}
		return out
	}
	return []leaf{{key: prefix, sort: vc.sortOf(t), typ: t}}
}

func (vc *VC) zeroVal(t types.Type) Val {
	if s := structOf(t); s != nil {
		sv := &StructV{T: t, F: make([]Val, s.NumFields())}
		for i := range sv.F {
			sv.F[i] = vc.zeroVal(s.Field(i).Type())
		}
		return sv
	}
	return vc.zeroTerm(t)
}

func (vc *VC) zeroTerm(t types.Type) Term {
	s := vc.sortOf(t)
	return vc.zeroOfSort(s)
}

func (vc *VC) zeroOfSort(s Sort) Term {
	switch s {
	case SInt:
		return IntLit(0)
	case SReal:
		return Term{"0.0", SReal}
	case SBool:
		return False
	case SF64:
		return vc.f64Const(0)
	case SSlice:
		return NilSlice
	case SIface:
		return NilIface
	}
	if strings.HasPrefix(string(s), "(Array Int ") {
		inner := Sort(string(s)[len("(Array Int ") : len(s)-1])
		return Term{fmt.Sprintf("((as const %s) %s)", s, vc.zeroOfSort(inner).S), s}
	}
	return IntLit(0)
}

func (vc *VC) f64Const(bits uint64) Term {
	name := fmt.Sprintf("f64!%016x", bits)
	if !vc.declSet[name] {
		// distinctness among declared literals
		c := vc.declConst(name, SF64)
		for k := range vc.declSet {
			if strings.HasPrefix(k, "f64!") && k != name {
				vc.assumeGlobal(Not(Eq(c, Term{k, SF64})))
			}
		}
		return c
	}
	return Term{name, SF64}
}

// ---------------------------------------------------------------------------
// struct locations

// fieldHeapKey for field f of struct type named S.
func fieldHeapKey(owner types.Type, f *types.Var) string {
	return "F:" + typeKey(owner) + "." + f.Name()
}

// subRef gives the ref of struct-valued field i within object ref of struct type owner.
func (vc *VC) subRef(owner types.Type, i int, ref Term) Term {
	if i == 0 {
		return ref
	}
	s := structOf(owner)
	fn := "sub!" + smtName(typeKey(owner)) + "!" + s.Field(i).Name()
	if !vc.declSet[fn] {
		vc.declFun(fn, []Sort{SInt}, SInt)
		// an embedded struct is part of its enclosing object: it was allocated during the call iff the object was
		r := Term{"r?", SInt}
		app := App(SInt, fn, r)
		vc.assumeGlobal(Forall([]Term{r}, [][]Term{{app}}, Eq(Ge(app, Term{"alloc0", SInt}), Ge(r, Term{"alloc0", SInt}))))
		// the embedded struct of a non-nil object is not nil; embedded structs of different fields, or of
		// different objects, are different objects
		vc.assumeGlobal(Forall([]Term{r}, [][]Term{{app}}, Implies(Not(Eq(r, IntLit(0))), Gt(app, IntLit(0)))))
		r2 := Term{"r2?", SInt}
		app2 := App(SInt, fn, r2)
		vc.assumeGlobal(Forall([]Term{r, r2}, [][]Term{{app, app2}}, Implies(Eq(app, app2), Eq(r, r2))))
		for _, other := range vc.subFuncs {
			oapp := App(SInt, other, r2)
			vc.assumeGlobal(Forall([]Term{r, r2}, [][]Term{{app, oapp}}, Not(Eq(app, oapp))))
		}
		vc.subFuncs = append(vc.subFuncs, fn)
	}
	return App(SInt, fn, ref)
}

// loadStruct reads the struct value of type t stored at ref.
func (vc *VC) loadStruct(st *State, t types.Type, ref Term) *StructV {
	s := structOf(t)
	sv := &StructV{T: t, F: make([]Val, s.NumFields())}
	for i := 0; i < s.NumFields(); i++ {
		sv.F[i] = vc.loadField(st, t, i, ref)
	}
	return sv
}

func (vc *VC) loadField(st *State, owner types.Type, i int, ref Term) Val {
	s := structOf(owner)
	f := s.Field(i)
	if structOf(f.Type()) != nil {
		return vc.loadStruct(st, f.Type(), vc.subRef(owner, i, ref))
	}
	key := fieldHeapKey(owner, f)
	h := vc.heap(st, key, ArrSort(vc.sortOf(f.Type())))
	return Select(h, ref)
}

func (vc *VC) storeField(st *State, owner types.Type, i int, ref Term, v Val, pos token.Pos) {
	s := structOf(owner)
	f := s.Field(i)
	if structOf(f.Type()) != nil {
		vc.storeStruct(st, f.Type(), vc.subRef(owner, i, ref), v.(*StructV), pos)
		return
	}
	key := fieldHeapKey(owner, f)
	h := vc.heap(st, key, ArrSort(vc.sortOf(f.Type())))
	vc.frameCheckField(st, key, ref, pos)
	vc.setHeap(st, key, Store(h, ref, vc.term(v)))
}

func (vc *VC) storeStruct(st *State, t types.Type, ref Term, v *StructV, pos token.Pos) {
	s := structOf(t)
	for i := 0; i < s.NumFields(); i++ {
		vc.storeField(st, t, i, ref, v.F[i], pos)
	}
}

func (vc *VC) term(v Val) Term {
	switch x := v.(type) {
	case Term:
		return x
	case nil:
		panic("nil value used as term")
	}
	panic(fmt.Sprintf("value %T is not a scalar term", v))
}

// allocRef returns a fresh object identity.
func (vc *VC) allocRef(st *State, what string) Term {
	r := vc.fresh(what, SInt)
	vc.assumeGlobal(Eq(r, st.alloc))
	na := vc.fresh("alloc", SInt)
	vc.assumeGlobal(Eq(na, Add(st.alloc, IntLit(1))))
	st.alloc = na
	if vc.freshRefs == nil {
		vc.freshRefs = map[string]bool{}
	}
	vc.freshRefs[r.S] = true
	return r
}

// resolveRead simplifies a read of cell i of slice s in heap h when h is a chain of syntactically
// resolvable stores (composite literals, freshly made arrays): read-over-write by syntactic match.
func (vc *VC) resolveRead(h, s, i Term) (Term, bool) {
	sl := s
	if d, ok := vc.defs[s.S]; ok {
		sl = d
	}
	if !strings.HasPrefix(sl.S, "(mk-slice ") {
		return Term{}, false
	}
	base := SBase(sl)
	idx := simpAdd(SOff(sl), i)
	for steps := 0; steps < 64; steps++ {
		hd, ok := vc.heapDef[h.S]
		if !ok {
			return Term{}, false
		}
		if hd.base.S == base.S {
			if hd.fresh {
				return hd.zero, true
			}
			if hd.idx.S == idx.S {
				return hd.val, true
			}
			if isIntLit(hd.idx.S) && isIntLit(idx.S) {
				h = hd.prev
				continue
			}
			return Term{}, false
		}
		if vc.freshRefs[hd.base.S] && vc.freshRefs[base.S] {
			h = hd.prev
			continue
		}
		return Term{}, false
	}
	return Term{}, false
}

// skipFreshStores walks back over stores into arrays allocated during the call when the slice read
// belongs to a parameter (allocated before the call), so that reads of unchanged caller memory are
// syntactically the same term before and after local allocations.
func (vc *VC) skipFreshStores(h, s Term) Term {
	sl := s
	if d, ok := vc.defs[s.S]; ok {
		sl = d
	}
	base := SBase(sl).S
	if !strings.HasPrefix(base, "(s-base ") || !vc.oldVals[base[len("(s-base "):len(base)-1]] {
		return h
	}
	for steps := 0; steps < 256; steps++ {
		hd, ok := vc.heapDef[h.S]
		if !ok || !vc.freshRefs[hd.base.S] {
			return h
		}
		h = hd.prev
	}
	return h
}

func isIntLit(s string) bool {
	if s == "" {
		return false
	}
	for _, c := range s {
		if c < '0' || c > '9' {
			return false
		}
	}
	return true
}

func simpAdd(a, b Term) Term {
	if a.S == "0" {
		return b
	}
	if b.S == "0" {
		return a
	}
	if isIntLit(a.S) && isIntLit(b.S) {
		x, _ := new(big.Int).SetString(a.S, 10)
		y, _ := new(big.Int).SetString(b.S, 10)
		return BigIntLit(new(big.Int).Add(x, y))
	}
	return Add(a, b)
}

// ---------------------------------------------------------------------------
// frame checks

func (vc *VC) frameCheckField(st *State, key string, ref Term, pos token.Pos) {
	if !vc.checkFrm {
		return
	}
	var alts []Term
	alts = append(alts, Ge(ref, vc.alloc0))
	for _, m := range vc.modLocs {
		if m.field && m.heap == key {
			alts = append(alts, Eq(ref, m.base))
		}
	}
	vc.oblige(st, "frame", "", pos, Or(alts...), "store to "+key+" outside modifies clause")
}

func (vc *VC) frameCheckCells(st *State, key string, base, lo, hi Term, pos token.Pos) {
	if !vc.checkFrm {
		return
	}
	var alts []Term
	alts = append(alts, Ge(base, vc.alloc0), Ge(lo, hi))
	for _, m := range vc.modLocs {
		if !m.field && m.heap == key {
			alts = append(alts, And(Eq(base, m.base), Le(m.lo, lo), Le(hi, m.hi)))
		}
	}
	vc.oblige(st, "frame", "", pos, Or(alts...), "store to "+key+" cells outside modifies clause")
}

// ---------------------------------------------------------------------------

func sortedKeys[V any](m map[string]V) []string {
	ks := make([]string, 0, len(m))
	for k := range m {
		ks = append(ks, k)
	}
	sort.Strings(ks)
	return ks
}

// linkSlices emits the term-introduction fact relating reads of a derived slice (result of
// append or of a slice expression) to reads of the slice it was derived from: whenever
// rd(h, derived, i) occurs, rd(h2, orig, shift+i) is made available (a tautology given rd's definition).
func (vc *VC) linkSlices(key string, hs Sort, newH, oldH Term, derived, orig Term, shift Term) {
	if strings.HasPrefix(derived.S, "(") || derived.S == orig.S {
		return
	}
	inner := Sort(string(hs)[len("(Array Int (Array Int ") : len(hs)-2])
	fn := "rd!" + smtName(key)
	if !vc.declSet[fn] {
		vc.rd(key, Term{"H0!" + smtName(key), hs}, NilSlice, IntLit(0))
	}
	ii := Term{"i?", SInt}
	idx := ii
	if shift.S != "0" {
		idx = Add(shift, ii)
	}
	if newH.S == "" {
		hh := Term{"h?", hs}
		vc.assumeGlobal(Forall([]Term{hh, ii}, [][]Term{{App(inner, fn, hh, derived, ii)}},
			Eq(App(inner, fn, hh, orig, idx), Select(Select(hh, SBase(orig)), Add(SOff(orig), idx)))))
		return
	}
	vc.assumeGlobal(Forall([]Term{ii}, [][]Term{{App(inner, fn, newH, derived, ii)}},
		Eq(App(inner, fn, oldH, orig, idx), Select(Select(oldH, SBase(orig)), Add(SOff(orig), idx)))))
}
