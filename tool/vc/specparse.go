package vc

import (
	"fmt"
	"strconv"
	"strings"
)

// ---- spec expression AST ----

type SExpr interface{ sexpr() }

type (
	SIdent  struct{ Name string }
	SIntL   struct{ Val string }
	SFloatL struct{ Val string }
	SBoolL  struct{ Val bool }
	SStr    struct{ Val string }
	SBin    struct {
		Op   string
		L, R SExpr
	}
	SUn struct {
		Op string
		X  SExpr
	}
	SCall struct {
		Fun  string
		Args []SExpr
	}
	SIndex  struct{ X, I SExpr }
	SSliceE struct{ X, Lo, Hi SExpr }
	SField  struct {
		X    SExpr
		Name string
	}
	SQuant struct {
		Forall bool
		Vars   []Binder
		Trig   [][]SExpr
		Body   SExpr
	}
	SCond struct{ C, A, B SExpr }
	SLet  struct {
		Name string
		Val  SExpr
		Body SExpr
	}
	// STypeAssert is x.(T)
	STypeAssert struct {
		X    SExpr
		Type string
	}
)

func (SIdent) sexpr()      {}
func (SIntL) sexpr()       {}
func (SFloatL) sexpr()     {}
func (SBoolL) sexpr()      {}
func (SStr) sexpr()        {}
func (SBin) sexpr()        {}
func (SUn) sexpr()         {}
func (SCall) sexpr()       {}
func (SIndex) sexpr()      {}
func (SSliceE) sexpr()     {}
func (SField) sexpr()      {}
func (SQuant) sexpr()      {}
func (SCond) sexpr()       {}
func (SLet) sexpr()        {}
func (STypeAssert) sexpr() {}

type Binder struct {
	Name string
	Type string // spec type text: int, real, float64, bool, seq[T], or Go type name
}

// ---- lexer ----

type tok struct {
	kind string // id, int, float, str, op, eof
	text string
	pos  int
}

func lexSpec(s string) ([]tok, error) {
	var out []tok
	i := 0
	ops := []string{"<==>", "==>", "::", "==", "!=", "<=", ">=", "&&", "||", "&^", "<<", ">>",
		"<", ">", "+", "-", "*", "/", "%", "!", "(", ")", "[", "]", "{", "}", ",", ".", ":", "?", "&", "|", "^", "="}
	for i < len(s) {
		c := s[i]
		switch {
		case c == ' ' || c == '\t' || c == '\n' || c == '\r':
			i++
		case c == '/' && i+1 < len(s) && s[i+1] == '/':
			for i < len(s) && s[i] != '\n' {
				i++
			}
		case isLetter(c):
			j := i
			for j < len(s) && (isLetter(s[j]) || isDigit(s[j])) {
				j++
			}
			out = append(out, tok{"id", s[i:j], i})
			i = j
		case isDigit(c):
			j := i
			isF := false
			if c == '0' && j+1 < len(s) && (s[j+1] == 'x' || s[j+1] == 'X') {
				j += 2
				for j < len(s) && (isDigit(s[j]) || (s[j] >= 'a' && s[j] <= 'f') || (s[j] >= 'A' && s[j] <= 'F')) {
					j++
				}
			} else {
				for j < len(s) && isDigit(s[j]) {
					j++
				}
				if j < len(s) && s[j] == '.' && j+1 < len(s) && isDigit(s[j+1]) {
					isF = true
					j++
					for j < len(s) && isDigit(s[j]) {
						j++
					}
				}
				if j < len(s) && (s[j] == 'e' || s[j] == 'E') {
					k := j + 1
					if k < len(s) && (s[k] == '+' || s[k] == '-') {
						k++
					}
					if k < len(s) && isDigit(s[k]) {
						isF = true
						for k < len(s) && isDigit(s[k]) {
							k++
						}
						j = k
					}
				}
			}
			if isF {
				out = append(out, tok{"float", s[i:j], i})
			} else {
				out = append(out, tok{"int", s[i:j], i})
			}
			i = j
		case c == '"':
			j := i + 1
			for j < len(s) && s[j] != '"' {
				if s[j] == '\\' {
					j++
				}
				j++
			}
			if j >= len(s) {
				return nil, fmt.Errorf("unterminated string at %d", i)
			}
			out = append(out, tok{"str", s[i+1 : j], i})
			i = j + 1
		default:
			matched := false
			for _, op := range ops {
				if strings.HasPrefix(s[i:], op) {
					out = append(out, tok{"op", op, i})
					i += len(op)
					matched = true
					break
				}
			}
			if !matched {
				return nil, fmt.Errorf("unexpected character %q at %d in %q", c, i, s)
			}
		}
	}
	out = append(out, tok{"eof", "", len(s)})
	return out, nil
}

func isLetter(c byte) bool {
	return c == '_' || (c >= 'a' && c <= 'z') || (c >= 'A' && c <= 'Z')
}
func isDigit(c byte) bool { return c >= '0' && c <= '9' }

// ---- parser ----

type sparser struct {
	toks []tok
	p    int
	src  string
}

func ParseSpecExpr(s string) (e SExpr, err error) {
	toks, err := lexSpec(s)
	if err != nil {
		return nil, err
	}
	ps := &sparser{toks: toks, src: s}
	defer func() {
		if r := recover(); r != nil {
			if pe, ok := r.(parseErr); ok {
				err = fmt.Errorf("spec parse error: %s in %q", string(pe), s)
				return
			}
			panic(r)
		}
	}()
	e = ps.expr(0)
	if ps.peek().kind != "eof" {
		ps.fail("unexpected %q", ps.peek().text)
	}
	return e, nil
}

type parseErr string

func (ps *sparser) fail(f string, a ...interface{}) {
	panic(parseErr(fmt.Sprintf(f, a...) + fmt.Sprintf(" at offset %d", ps.peek().pos)))
}
func (ps *sparser) peek() tok { return ps.toks[ps.p] }
func (ps *sparser) next() tok { t := ps.toks[ps.p]; ps.p++; return t }
func (ps *sparser) isOp(s string) bool {
	t := ps.peek()
	return t.kind == "op" && t.text == s
}
func (ps *sparser) isID(s string) bool {
	t := ps.peek()
	return t.kind == "id" && t.text == s
}
func (ps *sparser) expectOp(s string) {
	if !ps.isOp(s) {
		ps.fail("expected %q, got %q", s, ps.peek().text)
	}
	ps.p++
}

// binary operator precedence (higher binds tighter)
var binPrec = map[string]int{
	"<==>": 1, "==>": 2, "||": 3, "&&": 4,
	"==": 5, "!=": 5, "<": 5, "<=": 5, ">": 5, ">=": 5,
	"+": 6, "-": 6, "|": 6, "^": 6,
	"*": 7, "/": 7, "%": 7, "&": 7, "&^": 7, "<<": 7, ">>": 7,
}

func (ps *sparser) expr(minPrec int) SExpr {
	// quantifiers and let extend as far right as possible
	if ps.isID("forall") || ps.isID("exists") {
		return ps.quant()
	}
	if ps.isID("let") {
		ps.next()
		name := ps.next().text
		ps.expectOp(":")
		ps.expectOp("=")
		v := ps.expr(0)
		if !ps.isID("in") {
			ps.fail("expected 'in'")
		}
		ps.next()
		body := ps.expr(0)
		return SLet{name, v, body}
	}
	lhs := ps.unary()
	for {
		t := ps.peek()
		if t.kind != "op" {
			break
		}
		if t.text == "?" && minPrec <= 0 {
			ps.next()
			a := ps.expr(0)
			ps.expectOp(":")
			b := ps.expr(0)
			lhs = SCond{lhs, a, b}
			continue
		}
		prec, ok := binPrec[t.text]
		if !ok || prec < minPrec {
			break
		}
		ps.next()
		var rhs SExpr
		if t.text == "==>" {
			rhs = ps.expr(prec) // right assoc
		} else {
			rhs = ps.expr(prec + 1)
		}
		// chained comparisons a <= b < c
		if prec == 5 {
			if nt := ps.peek(); nt.kind == "op" && binPrec[nt.text] == 5 && (isOrd(t.text) && isOrd(nt.text)) {
				ps.next()
				rhs2 := ps.expr(6)
				lhs = SBin{"&&", SBin{t.text, lhs, rhs}, SBin{nt.text, rhs, rhs2}}
				continue
			}
		}
		lhs = SBin{t.text, lhs, rhs}
	}
	return lhs
}

func isOrd(op string) bool { return op == "<" || op == "<=" || op == ">" || op == ">=" }

func (ps *sparser) quant() SExpr {
	q := ps.next().text
	var vars []Binder
	for {
		var names []string
		names = append(names, ps.next().text)
		for ps.isOp(",") {
			ps.next()
			names = append(names, ps.next().text)
		}
		// now a type
		typ := ps.typeText()
		for _, n := range names {
			vars = append(vars, Binder{n, typ})
		}
		if ps.isOp("::") {
			break
		}
		if ps.isOp(",") {
			ps.next()
			continue
		}
		ps.fail("expected :: in quantifier")
	}
	ps.expectOp("::")
	var trigs [][]SExpr
	for ps.isOp("{") {
		ps.next()
		var tr []SExpr
		tr = append(tr, ps.expr(3))
		for ps.isOp(",") {
			ps.next()
			tr = append(tr, ps.expr(3))
		}
		ps.expectOp("}")
		trigs = append(trigs, tr)
	}
	body := ps.expr(0)
	return SQuant{q == "forall", vars, trigs, body}
}

// typeText parses a type: id | id.id | seq[type] | []type | *type
func (ps *sparser) typeText() string {
	if ps.isOp("[") {
		ps.next()
		ps.expectOp("]")
		return "[]" + ps.typeText()
	}
	if ps.isOp("*") {
		ps.next()
		return "*" + ps.typeText()
	}
	t := ps.next()
	if t.kind != "id" {
		ps.fail("expected type, got %q", t.text)
	}
	s := t.text
	if s == "seq" || s == "heap" {
		ps.expectOp("[")
		in := ps.typeText()
		ps.expectOp("]")
		return s + "[" + in + "]"
	}
	if ps.isOp(".") {
		ps.next()
		s += "." + ps.next().text
	}
	return s
}

func (ps *sparser) unary() SExpr {
	t := ps.peek()
	if t.kind == "op" {
		switch t.text {
		case "!", "-", "+", "*":
			ps.next()
			x := ps.unary()
			if t.text == "+" {
				return x
			}
			return SUn{t.text, x}
		}
	}
	return ps.postfix(ps.primary())
}

func (ps *sparser) primary() SExpr {
	t := ps.next()
	switch t.kind {
	case "int":
		return SIntL{t.text}
	case "float":
		return SFloatL{t.text}
	case "str":
		return SStr{t.text}
	case "id":
		switch t.text {
		case "true":
			return SBoolL{true}
		case "false":
			return SBoolL{false}
		}
		return SIdent{t.text}
	case "op":
		if t.text == "(" {
			e := ps.expr(0)
			ps.expectOp(")")
			return e
		}
	}
	ps.p--
	ps.fail("unexpected token %q", t.text)
	return nil
}

func (ps *sparser) postfix(x SExpr) SExpr {
	for {
		switch {
		case ps.isOp("."):
			ps.next()
			if ps.isOp("(") {
				ps.next()
				ty := ps.typeText()
				ps.expectOp(")")
				x = STypeAssert{x, ty}
				continue
			}
			n := ps.next()
			if n.kind != "id" {
				ps.fail("expected field name")
			}
			x = SField{x, n.text}
		case ps.isOp("["):
			ps.next()
			var lo, hi SExpr
			if ps.isOp(":") {
				ps.next()
				if !ps.isOp("]") {
					hi = ps.expr(0)
				}
				ps.expectOp("]")
				x = SSliceE{x, nil, hi}
				continue
			}
			lo = ps.expr(0)
			if ps.isOp(":") {
				ps.next()
				if !ps.isOp("]") {
					hi = ps.expr(0)
				}
				ps.expectOp("]")
				x = SSliceE{x, lo, hi}
				continue
			}
			ps.expectOp("]")
			x = SIndex{x, lo}
		case ps.isOp("("):
			// call: x must be ident or pkg.ident
			name := ""
			switch f := x.(type) {
			case SIdent:
				name = f.Name
			case SField:
				if id, ok := f.X.(SIdent); ok {
					name = id.Name + "." + f.Name
				}
			}
			if name == "" {
				ps.fail("call of non-identifier")
			}
			ps.next()
			var args []SExpr
			for !ps.isOp(")") {
				args = append(args, ps.expr(0))
				if ps.isOp(",") {
					ps.next()
				}
			}
			ps.expectOp(")")
			x = SCall{name, args}
		default:
			return x
		}
	}
}

// ---- contract file structure ----

type GhostVar struct {
	Name string
	Type string
	Init Clause
	Step Clause
}

type LoopSpec struct {
	Ghosts      []GhostVar
	Unreachable bool
	Invariants  []Clause
	Decreases   *Clause
	DecStar     bool
	Modifies    []Clause
}

type Clause struct {
	Text  string
	Expr  SExpr
	Label string
	Where string // file:line
}

type AtSpec struct {
	Kind string // use | assert | assume
	Cl   Clause
}

type Contract struct {
	Key        string // pkgpath.Recv.Name or pkgpath.Name
	Floats     string // opaque | real | ordered | ""
	Requires   []Clause
	Ensures    []Clause
	Modifies   []Clause
	HasMod     bool
	Decreases  *Clause
	DecStar    bool
	Loops      map[int]*LoopSpec
	At         map[string][]AtSpec // label -> hints (labels are //@ point NAME comments? we use call ordinals "call:Name#k" or "loop k body")
	Trusted    bool
	Inline     bool
	NoSafety   bool
	WithinLen  bool
	PanicsWhen []Clause
	MinObl     int
	Pure       bool     // no heap effects at all (no allocation either)
	Lemmas     []string // auto lemmas assumed (as quantified facts) while verifying this function
	Allocates  []string
	NilRecv    bool // the method tolerates a nil receiver: not assumed non-nil, not checked at call sites
	MaxDegree  int  // `maxdegree N`: no float product of more than N input-derived factors (see VC.degOf)
	NoMerge    bool // explore the branches of if/switch separately up to the end of the enclosing block
	StoreLinks bool // also introduce post-store reads from pre-store reads (quantifier instantiation aid)
	Where      string
}

type GhostFunc struct {
	Name    string
	Params  []Binder
	Result  string
	Body    SExpr // nil => uninterpreted
	BodyTxt string
	Dec     SExpr
	Pkg     string
	Opaque  bool
	Where   string
}

type Lemma struct {
	Name     string
	Params   []Binder
	Requires []Clause
	Ensures  []Clause
	Induct   string // variable for induction, "" none
	Uses     []Clause
	Applies  []Clause
	Floats   string
	Trusted  bool
	Triggers []string
	AutoUses []string
	Pkg      string
	Where    string
}

type Axiom struct {
	Name  string
	Cl    Clause
	Pkg   string
	Where string
}

type SpecSet struct {
	Contracts map[string]*Contract
	Ghosts    map[string]*GhostFunc
	Lemmas    map[string]*Lemma
	Axioms    []*Axiom
	Order     []string
}

func NewSpecSet() *SpecSet {
	return &SpecSet{Contracts: map[string]*Contract{}, Ghosts: map[string]*GhostFunc{}, Lemmas: map[string]*Lemma{}}
}

var clauseKW = map[string]bool{
	"func": true, "ghost": true, "lemma": true, "axiom": true, "requires": true, "ensures": true,
	"modifies": true, "invariant": true, "decreases": true, "loop": true, "floats": true,
	"inline": true, "trusted": true, "panics": true, "at": true, "use": true, "obligations": true,
	"induction": true, "nosafety": true, "withinlen": true, "allocates": true, "trigger": true, "lemmas": true, "unreachable": true, "pure": true, "package": true, "opaque": true, "storelinks": true, "nilrecv": true, "nomerge": true, "maxdegree": true, "apply": true,
}

// ParseSpecText parses contract text (already stripped of //@ prefixes); pkg is the
// import path used to qualify unqualified function names.
func (ss *SpecSet) ParseSpecText(lines []string, wheres []string, pkg string) error {
	// group into clauses
	type rawClause struct {
		kw    string
		text  string
		where string
	}
	var raws []rawClause
	for i, ln := range lines {
		t := strings.TrimSpace(ln)
		if t == "" {
			continue
		}
		if strings.HasPrefix(t, "#") {
			continue
		}
		first := t
		if j := strings.IndexAny(t, " \t:"); j >= 0 {
			first = t[:j]
		}
		if clauseKW[first] {
			rest := strings.TrimSpace(t[len(first):])
			if first == "loop" {
				// "loop N: invariant X" on one line is "loop N:" followed by "invariant X"
				if j := strings.Index(rest, ":"); j >= 0 && strings.TrimSpace(rest[j+1:]) != "" {
					tail := strings.TrimSpace(rest[j+1:])
					kw := tail
					if k := strings.IndexAny(tail, " \t:"); k >= 0 {
						kw = tail[:k]
					}
					if !clauseKW[kw] {
						return fmt.Errorf("%s: unknown clause %q after loop ordinal", wheres[i], kw)
					}
					raws = append(raws, rawClause{"loop", rest[:j+1], wheres[i]})
					raws = append(raws, rawClause{kw, strings.TrimSpace(tail[len(kw):]), wheres[i]})
					continue
				}
			}
			raws = append(raws, rawClause{first, rest, wheres[i]})
		} else {
			if len(raws) == 0 {
				return fmt.Errorf("%s: continuation line without clause: %q", wheres[i], t)
			}
			raws[len(raws)-1].text += "\n" + t
		}
	}
	var cur *Contract
	var curLoop *LoopSpec
	var curLemma *Lemma
	var curGhost *GhostFunc
	mkClause := func(text, where string) (Clause, error) {
		label := ""
		tt := strings.TrimSpace(text)
		// optional label:  [name] expr
		if strings.HasPrefix(tt, "[") {
			if j := strings.Index(tt, "]"); j > 0 && !strings.ContainsAny(tt[1:j], " :") {
				label = tt[1:j]
				tt = strings.TrimSpace(tt[j+1:])
			}
		}
		e, err := ParseSpecExpr(tt)
		if err != nil {
			return Clause{}, fmt.Errorf("%s: %v", where, err)
		}
		return Clause{Text: tt, Expr: e, Label: label, Where: where}, nil
	}
	for _, rc := range raws {
		switch rc.kw {
		case "package":
			pkg = strings.TrimSpace(rc.text)
		case "func":
			name := strings.TrimSpace(rc.text)
			key := pkg + "." + name
			if strings.HasPrefix(name, "ext:") {
				key = name[4:]
			}
			if _, dup := ss.Contracts[key]; dup {
				return fmt.Errorf("%s: duplicate contract for %s", rc.where, key)
			}
			cur = &Contract{Key: key, Loops: map[int]*LoopSpec{}, At: map[string][]AtSpec{}, Where: rc.where}
			ss.Contracts[key] = cur
			ss.Order = append(ss.Order, key)
			curLoop, curLemma, curGhost = nil, nil, nil
		case "ghost":
			if curLoop != nil && !strings.HasPrefix(strings.TrimSpace(rc.text), "func") {
				// loop ghost variable: ghost NAME TYPE = INIT step STEP
				t := strings.TrimSpace(rc.text)
				eq := strings.Index(t, "=")
				st := strings.LastIndex(t, " step ")
				if eq < 0 || st < eq {
					return fmt.Errorf("%s: bad loop ghost %q", rc.where, t)
				}
				hd := strings.Fields(t[:eq])
				if len(hd) != 2 {
					return fmt.Errorf("%s: bad loop ghost header %q", rc.where, t[:eq])
				}
				ic, err := mkClause(t[eq+1:st], rc.where)
				if err != nil {
					return err
				}
				sc, err := mkClause(t[st+6:], rc.where)
				if err != nil {
					return err
				}
				curLoop.Ghosts = append(curLoop.Ghosts, GhostVar{Name: hd[0], Type: hd[1], Init: ic, Step: sc})
				continue
			}
			// ghost func name(params) T [= expr]
			g, err := parseGhostHeader(rc.text)
			if err != nil {
				return fmt.Errorf("%s: %v", rc.where, err)
			}
			g.Pkg = pkg
			g.Where = rc.where
			if _, dup := ss.Ghosts[g.Name]; dup {
				return fmt.Errorf("%s: duplicate ghost %s", rc.where, g.Name)
			}
			ss.Ghosts[g.Name] = g
			cur, curLoop, curLemma, curGhost = nil, nil, nil, g
		case "opaque":
			if curGhost != nil {
				curGhost.Opaque = true
			}
		case "lemma":
			l, err := parseLemmaHeader(rc.text)
			if err != nil {
				return fmt.Errorf("%s: %v", rc.where, err)
			}
			l.Pkg = pkg
			l.Where = rc.where
			if _, dup := ss.Lemmas[l.Name]; dup {
				return fmt.Errorf("%s: duplicate lemma %s", rc.where, l.Name)
			}
			ss.Lemmas[l.Name] = l
			cur, curLoop, curLemma, curGhost = nil, nil, l, nil
		case "axiom":
			// axiom name: expr
			j := strings.Index(rc.text, ":")
			if j < 0 {
				return fmt.Errorf("%s: axiom needs name:", rc.where)
			}
			cl, err := mkClause(rc.text[j+1:], rc.where)
			if err != nil {
				return err
			}
			ss.Axioms = append(ss.Axioms, &Axiom{Name: strings.TrimSpace(rc.text[:j]), Cl: cl, Pkg: pkg, Where: rc.where})
		case "induction":
			if curLemma == nil {
				return fmt.Errorf("%s: induction outside lemma", rc.where)
			}
			curLemma.Induct = strings.TrimSpace(rc.text)
		case "floats":
			if curLemma != nil {
				curLemma.Floats = strings.TrimSpace(rc.text)
			} else if cur != nil {
				cur.Floats = strings.TrimSpace(rc.text)
			}
		case "requires", "ensures":
			cl, err := mkClause(rc.text, rc.where)
			if err != nil {
				return err
			}
			switch {
			case curLemma != nil:
				if rc.kw == "requires" {
					curLemma.Requires = append(curLemma.Requires, cl)
				} else {
					curLemma.Ensures = append(curLemma.Ensures, cl)
				}
			case cur != nil:
				if rc.kw == "requires" {
					cur.Requires = append(cur.Requires, cl)
				} else {
					cur.Ensures = append(cur.Ensures, cl)
				}
			default:
				return fmt.Errorf("%s: %s outside func/lemma", rc.where, rc.kw)
			}
		case "modifies":
			if cur == nil {
				return fmt.Errorf("%s: modifies outside func", rc.where)
			}
			txt := strings.TrimSpace(rc.text)
			var cls []Clause
			if txt != "" && txt != "nothing" {
				for _, part := range splitTopComma(txt) {
					cl, err := mkClause(part, rc.where)
					if err != nil {
						return err
					}
					cls = append(cls, cl)
				}
			}
			if curLoop != nil {
				curLoop.Modifies = append(curLoop.Modifies, cls...)
			} else {
				cur.HasMod = true
				cur.Modifies = append(cur.Modifies, cls...)
			}
		case "loop":
			if cur == nil {
				return fmt.Errorf("%s: loop outside func", rc.where)
			}
			var n int
			if _, err := fmt.Sscanf(strings.TrimSuffix(strings.TrimSpace(rc.text), ":"), "%d", &n); err != nil {
				return fmt.Errorf("%s: bad loop ordinal %q", rc.where, rc.text)
			}
			if ls := cur.Loops[n]; ls != nil {
				curLoop = ls
			} else {
				curLoop = &LoopSpec{}
				cur.Loops[n] = curLoop
			}
		case "invariant":
			if curLoop == nil {
				return fmt.Errorf("%s: invariant outside loop", rc.where)
			}
			cl, err := mkClause(rc.text, rc.where)
			if err != nil {
				return err
			}
			curLoop.Invariants = append(curLoop.Invariants, cl)
		case "decreases":
			txt := strings.TrimSpace(rc.text)
			if txt == "*" {
				if curLoop != nil {
					curLoop.DecStar = true
				} else if cur != nil {
					cur.DecStar = true
				}
				continue
			}
			cl, err := mkClause(txt, rc.where)
			if err != nil {
				return err
			}
			switch {
			case curGhost != nil:
				curGhost.Dec = cl.Expr
			case curLoop != nil:
				curLoop.Decreases = &cl
			case cur != nil:
				cur.Decreases = &cl
			}
		case "inline":
			if cur != nil {
				cur.Inline = true
			}
		case "trusted":
			if curLemma != nil {
				curLemma.Trusted = true
			} else if cur != nil {
				cur.Trusted = true
			}
		case "nomerge":
			if cur != nil {
				cur.NoMerge = true
			}
		case "maxdegree":
			if cur != nil {
				n, err := strconv.Atoi(strings.TrimSpace(rc.text))
				if err != nil || n < 1 {
					return fmt.Errorf("%s: maxdegree needs a positive integer", rc.where)
				}
				cur.MaxDegree = n
			}
		case "nosafety":
			if cur != nil {
				cur.NoSafety = true
			}
		case "trigger":
			if curLemma == nil {
				return fmt.Errorf("%s: trigger outside lemma", rc.where)
			}
			curLemma.Triggers = append(curLemma.Triggers, strings.TrimSpace(rc.text))
		case "lemmas":
			if cur != nil {
				for _, a := range splitTopComma(rc.text) {
					cur.Lemmas = append(cur.Lemmas, strings.TrimSpace(a))
				}
			} else if curLemma != nil {
				for _, a := range splitTopComma(rc.text) {
					curLemma.AutoUses = append(curLemma.AutoUses, strings.TrimSpace(a))
				}
			}
		case "unreachable":
			if curLoop != nil {
				curLoop.Unreachable = true
			}
		case "withinlen":
			if cur != nil {
				cur.WithinLen = true
			}
		case "allocates":
			if cur != nil {
				for _, a := range splitTopComma(rc.text) {
					cur.Allocates = append(cur.Allocates, strings.TrimSpace(a))
				}
			}
		case "pure":
			if cur != nil {
				cur.Pure = true
			}
		case "storelinks":
			if cur != nil {
				cur.StoreLinks = true
			}
		case "nilrecv":
			if cur != nil {
				cur.NilRecv = true
			}
		case "panics":
			t := strings.TrimSpace(strings.TrimPrefix(strings.TrimSpace(rc.text), "when"))
			cl, err := mkClause(t, rc.where)
			if err != nil {
				return err
			}
			if cur != nil {
				cur.PanicsWhen = append(cur.PanicsWhen, cl)
			}
		case "obligations":
			var n int
			fmt.Sscanf(strings.TrimSpace(strings.TrimPrefix(strings.TrimSpace(rc.text), ">=")), "%d", &n)
			if cur != nil {
				cur.MinObl = n
			}
		case "at":
			// at <label>: use lemma(args) | assert expr | assume expr
			j := strings.Index(rc.text, ": ")
			if strings.HasPrefix(strings.TrimSpace(rc.text), "stmt[") {
				// a text-keyed statement label ends at the last "]: " / "]#k: " before the hint keyword
				j = -1
				for _, kw := range []string{"assert ", "use ", "apply "} {
					if k := strings.Index(rc.text, ": "+kw); k >= 0 && (j < 0 || k < j) {
						// the label part must end with ] or ]#k
						lbl := strings.TrimSpace(rc.text[:k])
						if strings.HasSuffix(lbl, "]") || regexpHashSuffix(lbl) {
							j = k
						}
					}
				}
			}
			if j < 0 {
				j = strings.Index(rc.text, ":")
			}
			if j < 0 || cur == nil {
				return fmt.Errorf("%s: bad at clause", rc.where)
			}
			label := strings.TrimSpace(rc.text[:j])
			rest := strings.TrimSpace(rc.text[j+1:])
			kind := "use"
			for _, k := range []string{"use", "apply", "assert", "assume"} {
				if strings.HasPrefix(rest, k+" ") {
					kind = k
					rest = strings.TrimSpace(rest[len(k):])
				}
			}
			cl, err := mkClause(rest, rc.where)
			if err != nil {
				return err
			}
			cur.At[label] = append(cur.At[label], AtSpec{kind, cl})
		case "use":
			if curLemma == nil {
				return fmt.Errorf("%s: use outside lemma (use 'at' in functions)", rc.where)
			}
			cl, err := mkClause(rc.text, rc.where)
			if err != nil {
				return err
			}
			curLemma.Uses = append(curLemma.Uses, cl)
		case "apply":
			// conditional use of another lemma: its instance requires ==> ensures is assumed
			if curLemma == nil {
				return fmt.Errorf("%s: apply outside lemma (use 'at <label>: apply' in functions)", rc.where)
			}
			cl, err := mkClause(rc.text, rc.where)
			if err != nil {
				return err
			}
			curLemma.Applies = append(curLemma.Applies, cl)
		}
	}
	return nil
}

func pkgBase(p string) string {
	if i := strings.LastIndex(p, "/"); i >= 0 {
		return p[i+1:]
	}
	return p
}

func splitTopComma(s string) []string {
	var out []string
	depth := 0
	start := 0
	for i := 0; i < len(s); i++ {
		switch s[i] {
		case '(', '[', '{':
			depth++
		case ')', ']', '}':
			depth--
		case ',':
			if depth == 0 {
				out = append(out, strings.TrimSpace(s[start:i]))
				start = i + 1
			}
		}
	}
	out = append(out, strings.TrimSpace(s[start:]))
	return out
}

func parseParams(s string) ([]Binder, error) {
	s = strings.TrimSpace(s)
	if s == "" {
		return nil, nil
	}
	var out []Binder
	var pending []string
	for _, part := range splitTopComma(s) {
		fs := strings.Fields(part)
		switch len(fs) {
		case 1:
			pending = append(pending, fs[0])
		case 2:
			pending = append(pending, fs[0])
			for _, n := range pending {
				out = append(out, Binder{n, fs[1]})
			}
			pending = nil
		default:
			return nil, fmt.Errorf("bad parameter %q", part)
		}
	}
	if len(pending) > 0 {
		return nil, fmt.Errorf("parameters without type: %v", pending)
	}
	return out, nil
}

func parseGhostHeader(text string) (*GhostFunc, error) {
	t := strings.TrimSpace(text)
	t = strings.TrimSpace(strings.TrimPrefix(t, "func"))
	i := strings.Index(t, "(")
	if i < 0 {
		return nil, fmt.Errorf("bad ghost header %q", text)
	}
	name := strings.TrimSpace(t[:i])
	// find matching paren
	depth := 0
	j := i
	for ; j < len(t); j++ {
		if t[j] == '(' {
			depth++
		} else if t[j] == ')' {
			depth--
			if depth == 0 {
				break
			}
		}
	}
	params, err := parseParams(t[i+1 : j])
	if err != nil {
		return nil, err
	}
	rest := strings.TrimSpace(t[j+1:])
	g := &GhostFunc{Name: name, Params: params}
	if k := strings.Index(rest, "="); k >= 0 && (k+1 >= len(rest) || rest[k+1] != '=') {
		g.Result = strings.TrimSpace(rest[:k])
		g.BodyTxt = strings.TrimSpace(rest[k+1:])
		e, err := ParseSpecExpr(g.BodyTxt)
		if err != nil {
			return nil, err
		}
		g.Body = e
	} else {
		g.Result = rest
	}
	return g, nil
}

func parseLemmaHeader(text string) (*Lemma, error) {
	t := strings.TrimSpace(text)
	i := strings.Index(t, "(")
	j := strings.LastIndex(t, ")")
	if i < 0 || j < i {
		return nil, fmt.Errorf("bad lemma header %q", text)
	}
	params, err := parseParams(t[i+1 : j])
	if err != nil {
		return nil, err
	}
	return &Lemma{Name: strings.TrimSpace(t[:i]), Params: params}, nil
}

// regexpHashSuffix reports whether s ends in ]#<digits>.
func regexpHashSuffix(s string) bool {
	i := strings.LastIndex(s, "]#")
	if i < 0 || i+2 >= len(s) {
		return false
	}
	for _, c := range s[i+2:] {
		if c < '0' || c > '9' {
			return false
		}
	}
	return true
}
