#!/bin/bash
# Bounded stand-in for wktParse: injects the enumeration test into /repo/encoding/wkt with -overlay and runs it.
# Prints the harness output; the last line is a JSON summary. Exit 1 on a failing input (line FAILING-INPUT).
here=$(cd "$(dirname "$0")" && pwd)
repo=${VERIF_REPO:-/repo}
tier=${VERIF_TIER:-quick}
for a in "$@"; do [ "$a" = "-thorough" ] && tier=thorough; done
# -input FILE: replay the failing input recorded in a replay file (line FAILING-INPUT: wkt.Unmarshal("..."))
if [ "$1" = "-input" ]; then
  VERIF_INPUT=$(python3 - "$2" <<'PY'
import sys, re, json
m = re.search(r'FAILING-INPUT: wkt\.Unmarshal\(("(?:[^"\\]|\\.)*")\)', open(sys.argv[1]).read())
print(json.loads(m.group(1)) if m else "")
PY
)
  export VERIF_INPUT
  [ -z "$VERIF_INPUT" ] && { echo "no FAILING-INPUT line in $2"; exit 2; }
fi
tmp=$(mktemp -d)
trap 'rm -rf "$tmp"' EXIT
cp "$here/wkt_tokens_test.go.txt" "$tmp/zz_bounded_test.go"
printf '{"Replace":{"%s/encoding/wkt/zz_bounded_test.go":"%s/zz_bounded_test.go"}}' "$repo" "$tmp" > "$tmp/ov.json"
export GOFLAGS=-mod=mod GOPROXY=off GOSUMDB=off GOTOOLCHAIN=local VERIF_TIER=$tier
out=$(cd "$repo/encoding/wkt" && go test -overlay "$tmp/ov.json" -vet=off -count=1 -v -timeout 1500s -run '^TestBoundedWKT$' . 2>&1); rc=$?
echo "$out" | grep -v -E '^(ok|FAIL|---|exit status|PASS)([[:space:]]|$)' | grep -v '^$'
exit $rc
