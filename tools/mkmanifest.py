#!/usr/bin/env python3
"""Regenerates MANIFEST.json from props/*.json and the table below."""
import json, subprocess, glob, os
ROOT = os.path.dirname(os.path.dirname(os.path.abspath(__file__)))
ALL = ["C%02d" % i for i in range(1, 21)]
TEXT = {
 "C01": ("proof", "wf predicates (stride = dimension, whole number of coordinates, ends aligned / non-decreasing / finishing at the end) are postconditions of every constructor and setter of the level 0-2 types, and SetCoords-then-Coords returns bit-identical nested coordinates (ghost clients over the contracts), for all inputs and all loop iterations; stride-mismatch rejection with the error's fields. MultiPolygon: constructors, SetCoords and Push produce well-formed geometries (content round trip not stated).", "5/C01"),
 "C02": ("proof", "Push / part accessor / NumX contracts over the list-of-parts view (part i = flat[start_i:ends_i)) for Polygon, MultiLineString, MultiPoint, incl. layout-mismatch leaves the receiver unchanged; Swap exchanges all fields. The induction over Push histories is the per-operation obligations.", "5/C02"),
 "C04": ("proof", "For every reader behaviour allowed by the io contracts and every byte content: no index, slice, conversion, nil or type-assertion panic in wkbcommon readers, wkb.Read/Unmarshal, ewkb.Read/Unmarshal and the SQL Scan wrappers (safety obligations, all discharged); each decoder returns an error or a geometry that is well formed for its type (C01 predicates) built only through constructors/Push whose preconditions are proved at the call; every count-sized make and every part loop is dominated by its MaxGeometryElements check at the right level (alloc-guard obligations).", "5/C04"),
 "C07": ("proof", "GeoJSON decoding is total and canonical in layout: guessLayout0-3 return exactly the layout table of the statement (0/1 ordinates rejected, 2/3/4 -> XY/XYZ/XYZM, n>4 -> Layout(n), no first position -> DefaultLayout); Geometry.Decode / Unmarshal / Feature.UnmarshalJSON / FeatureCollection.UnmarshalJSON never panic for any json.Unmarshal outcome and return an error or a geometry that is well formed for its type (via the proved SetCoords contracts incl. level 3), collections recurse through the function's own contract; decodeBBox accepts exactly 4 or 6 numbers and, with encodeBBox, carries min then max ordinates.", "5/C07"),
 "C08": ("proof", "Over ordered reals with +-Inf constants: geom0.Bounds is the exact per-dimension min/max (recursive min/max functions, shown to be a lower/upper bound that is attained, by induction); NewBounds/IsEmpty; extendLayout keeps every semantic dimension (Z with Z, M with M); Extend's result per semantic dimension is fmin/fmax of the old box and the geometry's box, hence order independent (two-call ghost client); collections recurse (any depth, via a global validity precondition); Overlaps/OverlapsPoint agree with closed-interval arithmetic.", "5/C08"),
 "C09": ("proof", "Over the reals: doubleArea1 = trapezoid sum = shoelace sum for closed rings (telescoping lemma by induction), Length = sum of segment lengths, additivity over the parts of level-2 geometries, zero measures for points and lines, and no panic on any well-formed geometry incl. MultiPolygons with empty polygons.", "5/C09"),
 "C10": ("proof", "OrientationIndex returns the sign of the exact orientation determinant: (1) sign logic over the reals - the filter returns sgn((Ox-Px)(Ey-Py)-(Oy-Py)(Ex-Px)) or declines, the big-number branch evaluates (E-O)x(P-E), a polynomial identity links the two forms, antisymmetry and cyclic invariance are lemmas; (2) exactness of the big-number branch by precision accounting - every SetFloat64/Add/Sub/Mul has a proved [exact] precondition (receiver precision >= bits needed, from grid/magnitude exponents propagated through the five operations), for all finite float64 inputs.", "5/C10"),
 "C11": ("proof", "Over the reals: SignOfDet2x2 returns the sign of x1*y2-x2*y1 at every one of its returns (normalisation blocks and each half-step of the loop preserve sign*sgn(det): loop invariant); countSegment reports the point on the edge only if it is and adds exactly the indicator of 'edge crosses the open ray to +x' (half-open straddle rule, crossing abscissa via the determinant); LocatePointInRing: Boundary iff the point is on an edge (modulo the first-listed endpoint of an edge, which a closed ring lists again), else Interior iff the crossing count is odd (loop invariant against a recursive crossing-sum, monotonicity lemma by induction); IsPointInRing, IsOnLine and PointIntersectsLine agree with the on-segment predicate; per-edge symmetry lemmas.", "5/C11"),
 "C13": ("proof", "What contracts decide about the hull code: ConvexHullFlat / getConvexHull never write memory reachable from the caller (frame obligations: the arrays handed to the in-place sort and to the scan are the de-duplicated copy or arrays allocated in the call), every coordinate read exists (the scan is entered only with at least three de-duplicated coordinates; UniqueCoords, the octagon code, padArray3, cleanRing, lineOrPolygon and the coordinate stack stay inside their slices for every whole-coordinate input), results are non-nil geometries for non-empty input.", "5/C13"),
 "C14": ("proof", "Over the reals: SignedArea returns half of its telescoping sum, which equals minus the shoelace sum for a closed ring (clockwise positive; induction lemma); point centroid = arithmetic mean of the coordinates; line centroid accumulators = total length and length-weighted midpoint sums, GetCentroid their quotient; polygon centroid: addTriangle / addShell / addHole accumulate the triangle-fan area and centroid sums of each ring with one sign per ring, the fan area equals the shoelace sum independent of the base point for closed rings (lemma), GetCentroid = cg3/(3 areasum2) with the zero-area fallback to the line centroid; all index arithmetic in range.", "5/C14"),
 "C15": ("proof", "Over the reals: xy point-segment distance is <= the distance to every point of the segment and attained at the clamped projection (forall/exists form, incl. zero-length segments); perpendicular distance likewise over the whole line; point-linestring = fold of point-segment minima (loop invariant); 2D segment-segment = 0 exactly when the Cramer parameters lie in [0,1]^2 (a common point, lemma) else the least endpoint-segment distance; 3D point-segment as 2D; 3D segment-segment: stationary point of the Gram form when inside the unit square (global minimum by lemma), else least endpoint-segment distance; every division/sqrt argument proved safe (never NaN).", "5/C15"),
 "C17": ("proof", "Frame obligations (every heap store targets memory allocated inside the call; callees contribute only their proved modifies clauses) for the non-mutating entry points under contract: measures, bounds and predicates, coordinate accessors, Clone, 2D/3D distances, WKB/EWKB decoders and wkbcommon readers, IGC decoder and encoder; plus a whole-repository sweep showing that no library code assigns, increments or takes the address of a package-level variable.", "5/C17"),
 "C19": ("proof", "IGC decoder totality for every byte stream delivered by the (trusted) line scanner: every string index and slice in parseDec/parseB/parseH/parseI/parseLine/doParse is in range under the record-length invariant that parseI maintains; the fix array always holds whole 5-ordinate fixes so Read returns a well-formed Layout(5) LineString; parseDec computes the decimal value of its columns; two-digit years map into 1970-2069 with the same last two digits; every numeric field the encoder can emit (degrees up to the pole/antimeridian, milli-minutes, clamped altitude, time of day) is accepted by parseB.", "5/C19"),
 "C20": ("proof", "Over the reals: distanceFromSegmentSquared is the true squared point-segment distance (minimum over the segment, attained at the clamped projection); dpWorker's loop invariant (chain of pending index pairs on the explicit stack, all marked, no mark strictly inside a pending pair, everything right of the top pair finished) yields on exit: first and last point marked, marks are 0/1, and for any two consecutive marks u<v every point between them is within threshold of segment (u,v); SimplifyFlatCoords returns strictly increasing in-range indices starting at 0 and ending at n-1, identity for n<3; all index/slice arithmetic in range.", "5/C20"),
 "C16": ("proof", "Clone of every cloneable type returns field-by-field and element-by-element equal values whose backing arrays (flatCoords, ends, the endss spine and every row, min, max) are allocated inside the call and pairwise distinct; nil vs empty preserved.", "5/C16"),
}
NOTE = "ints mathematical; float64 per the function's numeric model (opaque bit patterns or exact reals, echoed in the evidence); append/copy/make per language spec; non-nil receivers; immutable package-level variables; trusted stdlib contracts listed in evidence.trusted_base"
NA = {
 "C18": "decided only by strconv.FormatFloat/AppendFloat and strings.TrimRight semantics plus a reflective walk: no contract on repository code can express or decide it (DESIGN.md section 6)",
}
def main():
    m = json.load(open(os.path.join(ROOT, "MANIFEST.json")))
    shas = subprocess.check_output(["git", "-C", "/repo", "log", "--format=%H", "--grep=^verif:"]).decode().split()
    m["hooks"]["source_commits"] = shas
    checks = []
    claimed = []
    for pid in ALL:
        if not os.path.exists(os.path.join(ROOT, "props", pid + ".json")) or pid not in TEXT:
            continue
        cat, text, ref = TEXT[pid]
        claimed.append(pid)
        checks.append({
            "property_id": pid,
            "quick_cmd": "bin/check %s --tier quick" % pid,
            "thorough_cmd": "bin/check %s --tier thorough" % pid,
            "evidence_file": "evidence/%s.json" % pid,
            "replay_cmd_template": "bin/check %s --replay {path}" % pid,
            "engine": "govc",
            "level_claimed": {"category": cat, "text": text, "design_ref": "DESIGN.md section " + ref},
            "level_note": NOTE,
            "technique": "contract-based deductive verification: contracts on the real functions, self-generated VCs (go/ast+go/types), discharged by z3/cvc5",
        })
    m["checks"] = checks
    m["engines"][0]["serves_properties"] = claimed
    na = []
    for pid in ALL:
        if pid in claimed:
            continue
        na.append({"property_id": pid, "reason": NA.get(pid, "contracts not yet completed in this build (see DESIGN.md status table)")})
    m["not_applicable"] = na
    json.dump(m, open(os.path.join(ROOT, "MANIFEST.json"), "w"), indent=1)
main()
