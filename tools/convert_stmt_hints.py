#!/usr/bin/env python3
"""Rewrites ordinal statement labels (at stmtN:) in /repo's contract files into text-keyed labels
(at stmt[<source text>]:), using `bin/govc -func F -stmts`. One-off migration tool."""
import re, subprocess, glob, os, sys
files = subprocess.check_output(["git", "-C", "/repo", "ls-files", "*contracts_verif.go"]).decode().split()
changed = 0
for rel in files:
    path = os.path.join("/repo", rel)
    d = os.path.dirname(rel)
    lines = open(path).read().split("\n")
    cur = None; cache = {}
    out = []
    for ln in lines:
        m = re.match(r"//@ func (\S+)", ln)
        if m:
            cur = m.group(1)
        m = re.match(r"(//@\s+at )stmt(\d+)(: .*)$", ln)
        if m and cur:
            key = (d + "." + cur) if d else cur
            if key not in cache:
                o = subprocess.run(["bin/govc", "-func", key, "-stmts"], capture_output=True, text=True, cwd="/verif").stdout
                mp = {}
                for l in o.split("\n"):
                    mm = re.match(r"stmt(\d+)\s+\S+ \S+\t(stmt\[.*)$", l)
                    if mm:
                        mp[int(mm.group(1))] = mm.group(2)
                cache[key] = mp
            lab = cache[key].get(int(m.group(2)))
            if lab is None:
                print("no mapping for", key, m.group(2), file=sys.stderr)
                out.append(ln)
                continue
            out.append(m.group(1) + lab + m.group(3))
            changed += 1
            continue
        out.append(ln)
    open(path, "w").write("\n".join(out))
print("converted", changed)
