#!/bin/bash
# usage: seed_run.sh <seed-id> <property> [tier]
# Applies a stored seeded change to /repo, runs the property's check, and undoes the change.
id=$1; prop=$2; tier=${3:-quick}
cd /verif
git -C /repo apply /verif/seeded/$id/patch.diff || exit 2
cp evidence/$prop.json /tmp/evidence_$prop.json.keep 2>/dev/null
bin/check $prop --tier $tier > /tmp/seedrun_$id.log 2>&1; rc=$?
git -C /repo apply -R /verif/seeded/$id/patch.diff
cp /tmp/evidence_$prop.json.keep evidence/$prop.json 2>/dev/null
grep -E "VIOLATION|FAIL|obligations discharged" /tmp/seedrun_$id.log | head -12
echo "seed=$id prop=$prop exit=$rc"
mkdir -p seeded/$id && cp /tmp/seedrun_$id.log seeded/$id/check_output.log
