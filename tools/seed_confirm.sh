#!/bin/bash
# usage: seed_confirm.sh <agent-worktree-name> <seed-id> <property>
# Confirms a seeded change independently in a fresh scratch worktree, then stores it under /verif/seeded/<seed-id>/.
set -u
export GOFLAGS=-mod=mod GOPROXY=off GOSUMDB=off GOTOOLCHAIN=local
src=/tmp/seed/$1; id=$2; prop=$3
out=/verif/seeded/$id; mkdir -p $out
cp $src/SEED_PATCH.diff $out/patch.diff
cp $src/SEED_NOTES.md $out/agent_notes.md 2>/dev/null
demo=$(cd $src && git ls-files --others --exclude-standard | grep '_test.go$' | head -1)
mkdir -p $out/demo/$(dirname $demo); cp $src/$demo $out/demo/$demo
wt=$(mktemp -d /tmp/confirm.XXXX); rmdir $wt
git -C /repo worktree add --detach $wt HEAD >/dev/null 2>&1
cp $src/$demo $wt/$demo
pkg=./$(dirname $demo)
( cd $wt && go test -vet=off -count=1 -run 'TestSeededDemo' $pkg > $out/demo_without.log 2>&1 ); r_without=$?
( cd $wt && git apply $out/patch.diff ) || { echo "patch does not apply"; }
( cd $wt && go build ./... > $out/build.log 2>&1 ); r_build=$?
( cd $wt && go test -vet=off -count=1 -run 'TestSeededDemo' $pkg > $out/demo_with.log 2>&1 ); r_with=$?
rm -f $wt/$demo
( cd $wt && go test -vet=off -count=1 ./... > $out/suite_with.log 2>&1 ); r_suite=$?
git -C /repo worktree remove --force $wt
echo "seed=$id prop=$prop build=$r_build demo_without=$r_without(want 0) demo_with=$r_with(want !=0) suite_with=$r_suite(want 0)"
python3 - <<PY
import json
json.dump({"seed":"$id","property":"$prop","demo":"demo/$demo","confirmed":{"builds":$r_build==0,"demo_passes_without_change":$r_without==0,"demo_fails_with_change":$r_with!=0,"existing_suite_passes_with_change":$r_suite==0},
"ran":["git worktree add (fresh, from /repo HEAD)","go test -run TestSeededDemo (without patch)","git apply patch.diff","go build ./...","go test -run TestSeededDemo (with patch)","go test -vet=off -count=1 ./... (with patch, demo removed)"]},open("$out/meta.json","w"),indent=1)
PY
