#!/usr/bin/env python3
"""Every non-trusted contract in /repo's contract files must be in the function list of at least one property
(a contract that no registered check verifies decides nothing).  Exit 1 and list the strays otherwise."""
import glob, json, os, re, subprocess, sys

listed = set()
for f in glob.glob('/verif/props/*.json'):
    listed.update(json.load(open(f))['functions'])
short = {x.rsplit('/', 1)[-1] for x in listed}
files = subprocess.check_output(['git', '-C', '/repo', 'ls-files', '*contracts_verif.go']).decode().split()
stray = []
for rel in files:
    d = os.path.dirname(rel)
    for b in re.split(r'\n(?=//@ func )', open('/repo/' + rel).read()):
        m = re.match(r'//@ func (\S+)', b)
        if not m or re.search(r'^//@\s+trusted\s*$', b, re.M):
            continue
        name = m.group(1)
        key = (d + '.' + name) if d else name
        # a contract on a function of another package is written <pkg>.<Func> in the importing package's file
        if key not in listed and name not in short:
            stray.append(key)
if stray:
    print('contracts verified by no registered check:', *stray, sep='\n  ')
    sys.exit(1)
print('all %d contract files: every non-trusted contract is registered' % len(files))
